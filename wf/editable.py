"""Tasks whose bodies/versions can be edited between executions (re-registered under the same name).

`define(name, body)` registers task ve.<name> with the given body version.  The `source=` text differs per
body version, so an unversioned task's hash changes exactly when its body changes.  CALLS counts function runs.
"""
from collections import Counter

from redun import task
from redun.task import get_task_registry

CALLS: Counter = Counter()
NS = "ve"


def T(name):
    return get_task_registry().get(f"{NS}.{name}")


def _leaf(b):
    def leaf(x):
        CALLS["leaf"] += 1
        return x + 1 + 10 * b
    return leaf


def _mid(b):
    def mid(x):
        CALLS["mid"] += 1
        return T("leaf")(x + 100 * b)
    return mid


def _top(b):
    def top(x):
        CALLS["top"] += 1
        return T("mid")(x + 1000 * b)
    return top


def _fanout(b):
    def fanout(x):
        CALLS["fanout"] += 1
        return [T("leaf")(x), T("leaf")(T("idt")(x)), T("leaf")(x + 1 + b)]
    return fanout


def _idt(b):
    def idt(x):
        CALLS["idt"] += 1
        return x
    return idt


def _boom(b):
    def boom(x):
        CALLS["boom"] += 1
        if b == 0:
            raise ValueError(f"boom:{x}")
        return x + b
    return boom


def _rec(b):
    def rec(err):
        CALLS["rec"] += 1
        return -1 - b
    return rec


def _guard(b):
    def guard(x):
        CALLS["guard"] += 1
        from redun.scheduler import catch
        return [catch(T("boom")(x), ValueError, T("rec")), T("leaf")(x + b)]
    return guard


def _big(b):
    def big(x):
        CALLS["big"] += 1
        return "v" * (300 + b) + str(x)
    return big


def _usebig(b):
    def usebig(x):
        CALLS["usebig"] += 1
        return [T("big")(x), len("x") + b]
    return usebig


def _summ(b):
    def summ(f):
        CALLS["summ"] += 1
        data = f.read()
        return len(data) + 7 * data.count("y") + 100 * b  # depends on the CONTENT, not only on the length
    return summ


def _fmain(b):
    def fmain(path):
        CALLS["fmain"] += 1
        from redun import File
        return [T("summ")(File(path)), b]
    return fmain


def _fmain_kw(b):
    def fmain_kw(path):
        CALLS["fmain_kw"] += 1
        from redun import File
        # the File is created inside the task and handed to the child BY KEYWORD (and once more inside a container)
        return [T("summ")(f=File(path)), T("summ_in")(d={"k": [File(path)]}), b]
    return fmain_kw


def _fmain_n(b):
    def fmain_n(path):
        CALLS["fmain_n"] += 1
        from redun import File
        # the File sits in a call that is itself an argument of another call: outer(inner(File(p)))
        return [T("idt")(T("summ")(File(path))), b]
    return fmain_n


def _summ_in(b):
    def summ_in(d):
        CALLS["summ_in"] += 1
        data = d["k"][0].read()
        return len(data) + 7 * data.count("y") + 1000 * b
    return summ_in


def _vleaf(b):
    def vleaf(x):
        CALLS["vleaf"] += 1
        return x + 5 + b
    return vleaf


def _vtop(b):
    def vtop(x):
        CALLS["vtop"] += 1
        return T("vleaf")(x + b)
    return vtop


def _sh(b):
    def sh(x):
        CALLS["sh"] += 1
        return f"echo -n out-{x}-{b}"
    return sh


def _stop(b):
    def stop(x):
        CALLS["stop"] += 1
        return [T("sh")(T("leaf")(x + b)), b]
    return stop


def _smain(b):
    def smain(t):
        CALLS["smain"] += 1
        tag, x = t
        # shallow validity is requested at CALL time (not in mid's decorator)
        return [tag, T("mid").options(check_valid="shallow")(x + 1000 * b)]
    return smain


def _nglue(b):
    def nglue(t):
        CALLS["nglue"] += 1
        tag, x = t
        return [tag, T("mid").options(check_valid="shallow")(x + 1000 * b)]
    return nglue


def _nouter(b):
    def nouter(t):
        CALLS["nouter"] += 1
        # shallow root -> fully checked glue -> shallow call -> leaf: the shallow hit sits beneath a NON-shallow parent
        return [T("nglue")(t), b]
    return nouter


def _huse(b):
    def huse(h, x):
        CALLS["huse"] += 1
        return x + 3 + b
    return huse


def _hmain(b):
    def hmain(x):
        CALLS["hmain"] += 1
        from wf.tasks import H
        # a Handle is passed to the child: its argument hash is that of the FORKED handle
        return [T("huse")(H("conn"), x + b), b]
    return hmain


def _xleaf(b):
    def xleaf(x):
        CALLS["xleaf"] += 1
        return x + 7 + b
    return xleaf


def _xtop(b):
    def xtop(x):
        CALLS["xtop"] += 1
        return [T("leaf")(x), T("xleaf")(x + b)]
    return xtop


BODIES = {"huse": _huse, "hmain": _hmain, "nglue": _nglue, "nouter": _nouter, "fmain_n": _fmain_n, "xleaf": _xleaf, "xtop": _xtop, "smain": _smain, "sh": _sh, "stop": _stop, "fmain_kw": _fmain_kw, "summ_in": _summ_in, "summ": _summ, "fmain": _fmain, "vleaf": _vleaf, "vtop": _vtop, "leaf": _leaf, "mid": _mid, "top": _top, "fanout": _fanout, "idt": _idt, "boom": _boom, "rec": _rec, "guard": _guard,
          "big": _big, "usebig": _usebig}


def define(name, body=0, version=None, **opts):
    func = BODIES[name](body)
    func.__name__ = name
    func.__qualname__ = name
    func.__module__ = __name__
    src = f"def {name}(x):  # body {body}\n"
    return task(name=name, namespace=NS, version=version, source=src, **opts)(func)


def define_all(bodies=None, opts=None, versions=None):
    """(Re)register every editable task. bodies: name -> body index; opts: name -> task options."""
    bodies = bodies or {}
    opts = opts or {}
    versions = versions or {}
    for name in BODIES:
        define(name, bodies.get(name, 0), versions.get(name), **opts.get(name, {}))
    CALLS.clear()
