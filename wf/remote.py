"""Tasks for the remote-job-protocol check (C32).  Importable as module `wf.remote` by `redun oneshot`."""
from redun import task

redun_namespace = "vr"

CALLS: list = []
MODE = {"fail": False}


class Unpicklable(Exception):
    """Carries a lambda: cannot be pickled, so oneshot must fall back to a generic Exception."""

    def __init__(self, msg):
        super().__init__(msg)
        self.f = lambda: None


@task()
def echo(*args, **kwargs):
    CALLS.append(("echo", args, kwargs))
    return [list(args), kwargs]


@task()
def kw(a, b=2, *, c=3):
    CALLS.append(("kw", a, b, c))
    return (a, b, c)


@task()
def boom(kind, msg):
    CALLS.append(("boom", kind, msg))
    if kind == "value":
        raise ValueError(msg)
    if kind == "key":
        raise KeyError(msg)
    if kind == "two-args":
        raise OSError(2, msg)
    if kind == "unpicklable":
        raise Unpicklable(msg)
    if kind == "none":
        return None
    return (kind, msg)


@task()
def flaky(x):
    CALLS.append(("flaky", x))
    if MODE["fail"]:
        raise RuntimeError(f"flaky {x!r}")
    return ["flaky-ok", x]


@task()
def flaky_file(path):
    """Writes a file and returns it as a File value (an output that can become invalid later)."""
    from redun import File

    CALLS.append(("flaky_file", path))
    if MODE["fail"]:
        raise RuntimeError(f"flaky_file {path!r}")
    f = File(path)
    f.write("task-output")
    return f


@task()
def flaky_files(path):
    """Like flaky_file, but the File sits inside a container (validity must be checked through the nesting)."""
    from redun import File

    CALLS.append(("flaky_files", path))
    if MODE["fail"]:
        raise RuntimeError(f"flaky_file {path!r}")
    f = File(path)
    f.write("task-output")
    return {"report": [f], "n": 1}
