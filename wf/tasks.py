"""Task library used by generated workflows (a real importable module so process mode can load it)."""
from typing import NamedTuple

from redun import task
from redun.functools import seq  # noqa: F401

redun_namespace = "vf"


class Pt(NamedTuple):
    x: object
    y: object


@task()
def inc(x):
    return x + 1


@task()
def add(a, b):
    return a + b


@task()
def ident(x):
    return x


@task()
def fail(x):
    raise ValueError(f"boom:{x}")


@task()
def fail_key(x):
    raise KeyError(f"k{x}")


@task(nout=2)
def pair(x):
    return (x, x + 1)


@task()
def twice(x):
    return inc(inc(x))


@task()
def fan(x):
    return [inc(x), inc(x + 1)]


@task()
def dflt(x, y=inc(10)):
    return x + y


@task()
def recover(err):
    return -1


@task()
def recover_msg(err):
    return "R:" + type(err).__name__ + ":" + str(err)


@task()
def reraise(err):
    raise err


@task()
def recover_all(values):
    return ["E" if isinstance(v, Exception) else v for v in values]


@task()
def mklist(x):
    return [x, x + 1]


@task()
def mid(x):
    """Task returning an expression: parent and child jobs."""
    return leaf(x)


@task()
def leaf(x):
    return x + 100


@task()
def mid_fail(x):
    return fail(x)


@task()
def mid2(x):
    return [leaf(x), leaf(x + 1)]


@task()
def ctx_leaf(x, v=None):
    return (x, v)


# ---- resource-limit variants (limits given as definition-time options)
@task(limits=["r"])
def rleaf(x):
    return x + 100


@task(limits=["r"])
def rfail(x):
    raise ValueError(f"boom:{x}")


@task(limits=["r"])
def rmid(x):
    """Holds r while running, then its child wants r too."""
    return rleaf(x)


@task(limits=["r"])
def rmid_fail(x):
    """Parent completes (releases r), then the child fails."""
    return rfail(x)


@task(limits={"r": 2})
def r2leaf(x):
    return x + 200


@task(limits=["a"])
def aleaf(x):
    return x + 1


@task(limits=["b"])
def bleaf(x):
    return x + 2


@task(limits={"a": 1, "b": 1})
def ableaf(x):
    return x + 3


@task(limits=["u"])
def uleaf(x):
    """'u' is never configured: limit defaults to 1."""
    return x + 4


@task(limits=["r"], executor="nope")
def rnoexec(x):
    return x


@task(limits=["r"], cache=False)
async def rasync(x):
    return x


# ---- handles
from redun import Handle  # noqa: E402


class H(Handle):
    def __init__(self, name, *a, **k):
        self.instance = None


@task()
def use(h, x):
    return h


@task()
def use_val(h, x):
    return x


@task(limits=["r"])
def ruse(h, x):
    return h


@task(cache_scope="NONE")
def nocache(x):
    return x


import dataclasses  # noqa: E402


@dataclasses.dataclass
class DC:
    a: object
    b: object


@task()
def mkerr(x):
    return ValueError(f"t{x}")


@dataclasses.dataclass
class DCN:
    a: object
    b: object = dataclasses.field(init=False, default=None)


@dataclasses.dataclass(frozen=True)
class FDC:
    a: object
    b: object = None


@dataclasses.dataclass(frozen=True)
class FDCN:
    a: object
    b: object = dataclasses.field(init=False, default=None)


from redun.context import get_context  # noqa: E402


@task()
def cleaf(x, v=get_context("v", "none")):
    return (x, v)


@task()
def cmid(x):
    return cleaf(x)


@task(check_valid="shallow")
def cmid_s(x):
    return cleaf(x)


@task()
def spawn_r(x):
    """Holds nothing itself; its result needs resource r."""
    return rleaf(x)


@dataclasses.dataclass
class DCD:
    """non-init field that instances leave at its declared default"""
    a: object
    b: object = dataclasses.field(init=False, default=0)


@task(limits={"r": 2})
def r2big(x):
    return x + 500


@task(limits=["r"])
def rdup_big(x):
    """Needs r:1 itself; its child needs r:2."""
    return r2big(x)


class PayloadError(Exception):
    """An error carrying an arbitrary payload object next to its message."""

    def __init__(self, msg, payload=None):
        super().__init__(msg)
        self.payload = payload


def _payload(kind):
    import threading

    if kind == "plain":
        return None
    if kind == "lambda":
        return lambda: None          # pickle: AttributeError / PicklingError (local object)
    if kind == "lock":
        return threading.Lock()      # pickle: TypeError
    if kind == "generator":
        return (i for i in range(3))  # pickle: TypeError
    if kind == "file":
        return open("/dev/null")     # pickle: TypeError
    if kind == "module":
        return threading             # pickle: TypeError
    raise AssertionError(kind)


@task()
def fail_payload(kind, x):
    raise PayloadError(f"payload:{kind}:{x}", _payload(kind))


@task()
def mid_payload(kind, x):
    return fail_payload(kind, x)


@task()
def top_payload(kind, x):
    return [inc(x), mid_payload(kind, x)]


@task()
def cdef(x, y=cmid(1)):
    """A call whose result depends on the context only through its subtree (cmid -> cleaf) sits in a DEFAULT ARGUMENT: it is
    evaluated in the called job's environment, under its context; the call itself looks the same under every context."""
    return y


class PtSub(Pt):
    """A subclass of a namedtuple (base class is the generated namedtuple, not tuple): still a namedtuple container."""

    def total(self):
        return self.x
