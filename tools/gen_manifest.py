#!/usr/bin/env python3
"""Regenerate MANIFEST.json from checks/registry.py (the single table of claimed checks)."""
import json
import os
import sys

ROOT = os.path.dirname(os.path.dirname(os.path.abspath(__file__)))
sys.path.insert(0, ROOT)
from checks.registry import CHECKS, NOT_APPLICABLE, ENGINES  # noqa: E402

BASELINE = json.load(open("/root/.vp/BASELINE.json"))["cmd"]

manifest = {
    "version": 1,
    "setup_cmd": "cd /verif && ./setup.sh",
    "hooks": {
        "guard": "REDUN_VERIF",
        "enable": "no source hooks: every seam is reached from outside (pluggable executor, events_queue attribute, "
        "SQLAlchemy engine events, sys.monitoring, module-attribute patching inside the harness process); "
        "./check exports REDUN_VERIF=1 for uniformity only",
        "baseline_off_cmd": BASELINE,
        "source_commits": [],
        "add_only": True,
    },
    "engines": ENGINES,
    "checks": [],
    "notes": "One entry point: ./check <ID> --tier quick|thorough [--replay file]. redun is installed editable in /venv, so "
    "every check explores the code in /repo's working tree directly. Genuine defects repaired in /repo are listed as "
    "'fixed:' lines in known_findings.txt; unrepaired ones as 'known:' lines with a structural signature.",
    "not_applicable": NOT_APPLICABLE,
}
for c in CHECKS:
    pid = c["id"]
    manifest["checks"].append(
        {
            "property_id": pid,
            "quick_cmd": f"./check {pid} --tier quick",
            "thorough_cmd": f"./check {pid} --tier thorough",
            "evidence_file": f"/verif/evidence/{pid}.json",
            "replay_cmd_template": f"./check {pid} --replay {{path}}",
            "engine": c["engine"],
            "level_claimed": {"category": c["level"], "text": c["text"], "design_ref": c.get("design_ref", f"DESIGN.md §3 {pid}")},
            "level_note": c["note"],
            "technique": c["technique"],
        }
    )
json.dump(manifest, open(os.path.join(ROOT, "MANIFEST.json"), "w"), indent=1)
try:
    import jsonschema

    jsonschema.validate(manifest, json.load(open("/root/.vp/MANIFEST.schema.json")))
    print("MANIFEST.json valid;", len(manifest["checks"]), "checks,", len(NOT_APPLICABLE), "not applicable")
except ImportError:
    print("written (jsonschema not available to validate)")
