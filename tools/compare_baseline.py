#!/usr/bin/env python3
"""Compare a pytest junit xml with /root/.vp/BASELINE.json: every stable-pass test must still pass."""
import ast
import json
import sys
import xml.etree.ElementTree as ET

base = json.load(open("/root/.vp/BASELINE.json"))
stable = base["stable_pass"]
stable = set(ast.literal_eval(stable) if isinstance(stable, str) else stable)
flaky = set(base.get("flaky") or [])
res = {}
for tc in ET.parse(sys.argv[1]).getroot().iter("testcase"):
    name = f"{tc.get('classname')}::{tc.get('name')}"
    bad = any(c.tag in ("failure", "error") for c in tc)
    skipped = any(c.tag == "skipped" for c in tc)
    res[name] = "fail" if bad else ("skip" if skipped else "pass")
missing = [t for t in stable if t not in res]
failed = [t for t in stable if res.get(t) == "fail"]
print(f"stable={len(stable)} ran={len(res)} passed_of_stable={sum(1 for t in stable if res.get(t)=='pass')} failed={len(failed)} missing={len(missing)}")
for t in failed[:40]:
    print("FAILED", t)
for t in missing[:10]:
    print("MISSING", t)
sys.exit(1 if failed or missing else 0)
