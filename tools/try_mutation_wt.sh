#!/bin/bash
# usage: tools/try_mutation_wt.sh <worktree> <patch.diff> <check ids...>
# Like try_mutation.sh but leaves /repo alone: applies the patch inside the scratch worktree and runs the checks with redun imported from
# there (PYTHONPATH), evidence written to /dev/shm.  For use while other runs need /repo unchanged.
wt="$1"; patch="$2"; shift 2
git -C "$wt" checkout -q -- redun
git -C "$wt" apply "$patch" || { echo "PATCH DOES NOT APPLY"; exit 3; }
cd /verif
for c in "$@"; do
  out=$(PYTHONPATH="$wt" VERIF_SCRATCH_EVIDENCE=1 timeout 1500 ./check "$c" --tier "${TIER:-quick}" 2>&1)
  rc=$?
  n=$(echo "$out" | grep -c "^VIOLATION")
  echo "[$c] rc=$rc violations=$n"
  echo "$out" | grep -A1 "^VIOLATION" | grep "sig=" | head -5 | cut -c1-220
done
git -C "$wt" checkout -q -- redun
