#!/bin/bash
# usage: tools/try_mutation.sh <patch.diff> <check ids...>   -- applies the patch to /repo, runs the checks (quick), reverts.
patch="$1"; shift
cd /repo || exit 2
if [ -n "$(git status --porcelain --untracked-files=no)" ]; then echo "/repo not clean"; exit 2; fi
git apply "$patch" || { echo "PATCH DOES NOT APPLY"; exit 3; }
cd /verif
for c in "$@"; do
  out=$(timeout 1500 ./check "$c" --tier "${TIER:-quick}" 2>&1)
  rc=$?
  n=$(echo "$out" | grep -c "^VIOLATION")
  echo "[$c] rc=$rc violations=$n"
  echo "$out" | grep -A1 "^VIOLATION" | grep "sig=" | head -5 | cut -c1-220
done
git -C /repo checkout -- . 
git -C /repo status --porcelain --untracked-files=no
