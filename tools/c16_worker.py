"""Runs in a FRESH interpreter (own PYTHONHASHSEED): builds the C16 value family and prints one JSON line per variant."""
import dataclasses
import itertools
import json
import sys

sys.path.insert(0, sys.argv[1])


@dataclasses.dataclass
class DC16:
    a: object
    b: object


ELEMS = {"s3": ["a", "b", "c"], "s2": ["x", "y"], "i3": [0, 8, 16], "m2": [1, "1"], "f2": ["fa", "fb"],
         # equal-but-different twins (True == 1 == 1.0, (1, "t") == (1.0, "t")) in non-orderable sets, with strings in between
         "tA": [True, "m", "q", (1, "t")], "tB": [1.0, "m", "q", (1.0, "t")], "tC": [1, "p", "r", (True, "t")]}


def variants():
    """Yield (value_id, variant_id, value). Same value_id => same abstract value (sets differ only in insertion order)."""
    scal = [("i", 1), ("f", 1.5), ("b", True), ("n", None), ("s", "a"), ("y", b"b")]
    for n, v in scal:
        yield f"scalar:{n}", "0", v
        yield f"list1:{n}", "0", [v]
        yield f"tuple2:{n}", "0", (v, v)
        yield f"dict:{n}", "0", {"k": v}
        yield f"dc:{n}", "0", DC16(v, 1)
    for name, elems in ELEMS.items():
        for r in range(1, len(elems) + 1):
            for sub in itertools.combinations(elems, r):
                for perm in itertools.permutations(sub):
                    pid = ",".join(map(repr, perm))
                    sid = f"{name}:{','.join(map(repr, sub))}"

                    def mkset(t=set, perm=perm):
                        s = t() if t is set else None
                        if t is set:
                            for e in perm:
                                s.add(e)
                            return s
                        return frozenset(list(perm))

                    try:
                        sorted(sub)
                        orderable = True
                    except TypeError:
                        orderable = False
                    yield f"set:{sid}", pid, mkset()
                    yield f"frozenset:{sid}", pid, mkset(frozenset)
                    yield f"list[set]:{sid}", pid, [mkset()]
                    yield f"tuple(set,1):{sid}", pid, (mkset(), 1)
                    yield f"dict[set]:{sid}", pid, {"k": mkset()}
                    yield f"dc(set):{sid}", pid, DC16(mkset(), 1)
                    yield f"list[frozenset]:{sid}", pid, [mkset(frozenset)]
                    yield f"set{{frozenset}}:{sid}", pid, {mkset(frozenset)}
                    yield f"dictkey[frozenset]:{sid}", pid, {mkset(frozenset): 1}
                    yield f"list[list[set]]:{sid}", pid, [[mkset()]]


def main():
    from redun.value import get_type_registry

    reg = get_type_registry()
    out = []
    order = list(variants())
    if len(sys.argv) > 2 and sys.argv[2] == "rev":
        order.reverse()  # the same values hashed in the opposite order within this process: a hash must not depend on what was hashed before
    for vid, var, v in order:
        try:
            h = reg.get_hash(v)
        except Exception as e:  # noqa: BLE001
            h = f"ERR:{type(e).__name__}"
        try:
            # the hash under which the backend records the value: RedunBackendDb.record_value computes exactly this
            vi = reg.get_value(v)
            hb = vi.get_hash(data=vi.serialize())
        except Exception as e:  # noqa: BLE001
            hb = f"ERR:{type(e).__name__}"
        it = None
        if vid == "set:s3:'a','b','c'":
            it = "".join(v)
        out.append([vid, var, h, it, hb])
    json.dump(out, sys.stdout)


main()
