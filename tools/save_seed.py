#!/usr/bin/env python3
"""save_seed.py <seed id> <property> <mutation dir> <caught_by csv or -> <needs> : copy a confirmed mutation into /verif/seeded/."""
import json, os, shutil, sys
sid, prop, src, caught, needs = sys.argv[1:6]
dst = f"/verif/seeded/{sid}"
os.makedirs(dst, exist_ok=True)
for f in ("patch.diff", "demo.py", "README.md"):
    if os.path.exists(os.path.join(src, f)):
        shutil.copy(os.path.join(src, f), os.path.join(dst, f))
meta = {"id": sid, "breaks_property": prop, "needs_to_manifest": needs,
        "caught_by": [c for c in caught.split(",") if c and c != "-"],
        "confirmed": "demo.py exits 0 on the unchanged tree and non-zero with patch.diff applied (tools/confirm_mutation.sh in a scratch worktree); "
                     "listed test files pass with the patch; checks run with tools/try_mutation.sh against /repo and reverted",
        "source": "independent sub-agent given only the property text and a scratch worktree"}
if len(sys.argv) > 6:
    meta["notes"] = sys.argv[6]
json.dump(meta, open(os.path.join(dst, "meta.json"), "w"), indent=1)
print("saved", dst)
