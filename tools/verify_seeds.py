#!/usr/bin/env python3
"""Re-validate every seeded change: apply seeded/<id>/patch.diff in a scratch worktree of /repo (never in /repo itself), run the checks listed
in meta.json `caught_by` (quick tier) with redun imported from that worktree, and report whether each still reports a violation.
Evidence of these runs goes to /dev/shm (VERIF_SCRATCH_EVIDENCE).  usage: /venv/bin/python tools/verify_seeds.py [-j N] [seed-id-substring ...]"""
import glob
import json
import os
import subprocess
import sys
from concurrent.futures import ThreadPoolExecutor

ROOT = os.path.dirname(os.path.dirname(os.path.abspath(__file__)))


def sh(*a, **k):
    return subprocess.run(a, capture_output=True, text=True, **k)


def one(args):
    slot, mp = args
    m = json.load(open(mp))
    wt = f"/tmp/wt-seeds-{slot}"
    if not os.path.isdir(wt):
        sh("git", "-C", "/repo", "worktree", "add", "--detach", wt, "HEAD")
    sh("git", "-C", wt, "checkout", "--", ".")
    sh("git", "-C", wt, "checkout", "--detach", "-q", sh("git", "-C", "/repo", "rev-parse", "HEAD").stdout.strip())
    patch = os.path.join(os.path.dirname(mp), "patch.diff")
    r = sh("git", "-C", wt, "apply", patch)
    if r.returncode:
        return m["id"], "PATCH NO LONGER APPLIES", []
    res = []
    env = dict(os.environ, PYTHONPATH=wt, VERIF_SCRATCH_EVIDENCE="1", VERIF_NPROC=os.environ.get("VERIF_NPROC", "8"))
    for c in m.get("caught_by", []):
        out = sh(os.path.join(ROOT, "check"), c, "--tier", "quick", cwd=ROOT, env=env)
        n = sum(1 for line in out.stdout.splitlines() if line.startswith("VIOLATION"))
        res.append((c, out.returncode, n))
    sh("git", "-C", wt, "checkout", "--", ".")
    ok = bool(res) and all(rc == 1 and n > 0 for _c, rc, n in res)
    return m["id"], "caught" if ok else "NOT CAUGHT", res


def main():
    argv = sys.argv[1:]
    jobs = 3
    if argv[:1] == ["-j"]:
        jobs = int(argv[1])
        argv = argv[2:]
    metas = [mp for mp in sorted(glob.glob(os.path.join(ROOT, "seeded", "*", "meta.json"))) if not argv or any(w in mp for w in argv)]
    bad = 0
    slots = list(range(jobs))
    # one worktree per worker thread
    import queue

    q = queue.Queue()
    for s in slots:
        q.put(s)

    def run(mp):
        s = q.get()
        try:
            return one((s, mp))
        finally:
            q.put(s)

    with ThreadPoolExecutor(jobs) as ex:
        for sid, verdict, res in ex.map(run, metas):
            print(f"{sid}: {verdict} {res}", flush=True)
            bad += verdict != "caught"
    for s in slots:
        sh("git", "-C", "/repo", "worktree", "remove", "--force", f"/tmp/wt-seeds-{s}")
    sh("git", "-C", "/repo", "worktree", "prune")
    print(f"{len(metas)} seeds, {bad} not caught")
    return 1 if bad else 0


if __name__ == "__main__":
    sys.exit(main())
