#!/usr/bin/env python3
"""Apply every seeded change in /verif/seeded to /repo (one at a time), run the checks listed in its meta.json `caught_by` (quick tier),
and revert.  Prints one line per seed; exit 1 if a seed is no longer caught.  EXCLUSIVE: nothing else may use /repo while this runs.
usage: /venv/bin/python tools/verify_seeds.py [seed-id-substring ...]"""
import glob
import json
import os
import subprocess
import sys

ROOT = os.path.dirname(os.path.dirname(os.path.abspath(__file__)))


def sh(*a, **k):
    return subprocess.run(a, capture_output=True, text=True, **k)


def main():
    want = sys.argv[1:]
    if sh("git", "-C", "/repo", "status", "--porcelain", "--untracked-files=no").stdout.strip():
        print("/repo is not clean")
        return 2
    bad = 0
    for mp in sorted(glob.glob(os.path.join(ROOT, "seeded", "*", "meta.json"))):
        m = json.load(open(mp))
        if want and not any(w in m["id"] for w in want):
            continue
        patch = os.path.join(os.path.dirname(mp), "patch.diff")
        r = sh("git", "-C", "/repo", "apply", patch)
        if r.returncode:
            print(f"{m['id']}: PATCH NO LONGER APPLIES ({r.stderr.strip().splitlines()[-1] if r.stderr.strip() else ''})")
            bad += 1
            continue
        try:
            res = []
            for c in m.get("caught_by", []):
                out = sh(os.path.join(ROOT, "check"), c, "--tier", "quick", cwd=ROOT)
                n = sum(1 for l in out.stdout.splitlines() if l.startswith("VIOLATION"))
                res.append((c, out.returncode, n))
            ok = bool(res) and all(rc == 1 and n > 0 for _c, rc, n in res)
            print(f"{m['id']}: {'caught' if ok else 'NOT CAUGHT'} {res}", flush=True)
            bad += 0 if ok else 1
        finally:
            sh("git", "-C", "/repo", "checkout", "--", ".")
    # evidence files were rewritten by runs on mutated trees: the caller must re-run the checks on the clean tree before committing evidence
    return 1 if bad else 0


if __name__ == "__main__":
    sys.exit(main())
