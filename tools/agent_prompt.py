#!/usr/bin/env python3
"""Print the prompt for a mutation sub-agent: property text + scratch worktree only (nothing from /verif)."""
import json, sys
pid, wt = sys.argv[1], sys.argv[2]
p = next(json.loads(l) for l in open('/verif/properties.jsonl') if json.loads(l)['id'] == pid)
print(f"""You are working in a scratch git worktree of the insitro/redun repository (a Python workflow engine) at {wt}.
Work ONLY inside {wt}. Never read or modify /repo or /verif. Run Python as: cd {wt} && PYTHONPATH={wt} /venv/bin/python ...
(first verify that `PYTHONPATH={wt} /venv/bin/python -c "import redun; print(redun.__file__)"` prints a path inside {wt}).

PROPERTY that redun is supposed to satisfy:
  Title: {p['title']}
  Statement: {p['statement']}
  Quantified over: {p['quantifier']['text']}
  Code it is anchored in: {', '.join(p['anchors']['files'])}

YOUR TASK: make a realistic change to the redun source under {wt}/redun that BREAKS this property while
  (1) the package still imports, and
  (2) the existing test suite still passes. Run at least the relevant test files
      (cd {wt} && PYTHONPATH={wt} /venv/bin/python -m pytest -q -p no:cacheprovider redun/tests/<files>) before and after your change and
      compare; about 50 tests of the full suite already fail on the unchanged tree (cloud/docker related), ignore those. If you have time
      run the whole suite once with your change (about 5 minutes: ... -m pytest -q -p no:cacheprovider --timeout=900 redun) and compare with
      the list of failures on the unchanged tree.
The change should look like something a developer could plausibly commit (a refactoring slip, an optimisation, a reordered statement, a wrong
condition), and it should need something SPECIFIC to manifest - a particular interleaving or completion order, a crash or fault at a particular
point, a multi-step sequence of operations, an unusual input, or two cooperating sites that each look fine alone - not something ordinary use
would expose at once. Do not just delete a feature or raise an exception unconditionally.

HOUSEKEEPING: NEVER use `git stash` (the stash is shared by every worktree of this repository and other agents work concurrently; pops land in the
wrong worktree). To switch between the unchanged and the changed tree use `git diff -- redun > {wt}/my.patch; git checkout -- redun; ...;
git apply {wt}/my.patch`. Never use `pkill -f`, `killall` or similar pattern kills (other sessions run python/pytest on this machine) - kill only PIDs you
started. Run the whole test suite only if `uptime` shows a load average below 8; otherwise the relevant test files are enough. Delete stray files
your test runs leave behind (e.g. {wt}/workflow.py, temporary directories you created under /tmp).

IMPORTANT: work in small steps and save files early - write mutation1/patch.diff, demo.py and README.md as soon as mutation1 works, before doing
anything else; keep the whole session under ~40 tool calls.

DELIVER, for each mutation you produce (one is enough, a second different one is welcome; directories {wt}/mutation1 and {wt}/mutation2):
  patch.diff  - `git diff` of the source change only (must apply with `git apply` to the unchanged tree)
  demo.py     - a small self-contained program that exits 0 on the unchanged tree and exits non-zero (printing what went wrong) with the change applied
  README.md   - what you changed, why it breaks the property, what it needs in order to manifest, which tests you ran and their result
After saving mutation1, revert the source (git checkout -- redun) before creating mutation2, and leave the worktree source unchanged at the end
(only the mutation directories added). Do not commit anything. Finish with a short summary of the mutations and the exact commands you ran.""")
