#!/bin/bash
# usage: confirm_mutation.sh <worktree> <mutation dir> <test files...>: demo passes clean, fails mutated; tests pass mutated.
wt="$1"; m="$2"; shift 2
cd "$wt" || exit 2
git checkout -q -- redun
PYTHONPATH="$wt" timeout 900 /venv/bin/python "$m/demo.py" > /dev/shm/demo_clean.log 2>&1; c=$?
git apply "$m/patch.diff" || { echo "patch does not apply in worktree"; exit 3; }
PYTHONPATH="$wt" timeout 900 /venv/bin/python "$m/demo.py" > /dev/shm/demo_mut.log 2>&1; d=$?
echo "demo clean rc=$c mutated rc=$d"; tail -3 /dev/shm/demo_mut.log | cut -c1-300
if [ $# -gt 0 ]; then
  PYTHONPATH="$wt" timeout 1800 /venv/bin/python -m pytest -q -p no:cacheprovider --timeout=900 "$@" 2>&1 | tail -2 | cut -c1-200
fi
git checkout -q -- redun
