#!/bin/bash
# Offline setup: verify the interpreter, redun (editable from /repo) and the harness import; build nothing else.
set -e
cd "$(dirname "$0")"
/venv/bin/python - <<'PY'
import sys
sys.path.insert(0, ".")
import redun, jsonschema, sqlalchemy
from engine import common
print("setup ok: redun", redun.__version__, "from", redun.__file__)
PY
mkdir -p evidence replays
