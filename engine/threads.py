"""Preemption-bounded exploration of real Python threads.

Real `threading.Thread`s run the real code, but only one at a time: every controlled thread waits on its own
semaphore and the scheduler hands the baton over at *scheduling points*.  Points are taken

* before every bytecode instruction of the instrumented code objects that can touch shared state (sys.monitoring
  INSTRUCTION events, so `self.n -= len(x)` - one source line - can be interrupted between its load and its store), and
* at the controlled synchronisation primitives (Lock, Event, Thread.join, sleeping) that replace `threading` / `time`
  in the target module's namespace.

The explorer (engine.evloop.explore) enumerates choice prefixes: choice 0 = keep running the current thread (or, when it
blocks or yields, the lowest-numbered enabled thread); any other choice is a deviation (a preemption).
"""
from __future__ import annotations

import dis
import hashlib
import sys
import threading as _threading
import types

TOOL_ID = 4
POINT_OPS = {"LOAD_ATTR", "STORE_ATTR", "BINARY_SUBSCR", "STORE_SUBSCR", "DELETE_SUBSCR", "CALL", "FOR_ITER", "LOAD_GLOBAL", "CONTAINS_OP",
             "GET_ITER", "BEFORE_WITH", "CALL_FUNCTION_EX", "LOAD_DEREF", "STORE_DEREF", "STORE_GLOBAL", "DELETE_ATTR", "CALL_KW", "BINARY_SLICE",
             "STORE_SLICE", "LOAD_SUPER_ATTR", "SEND", "RETURN_VALUE", "RETURN_CONST"}


class Abort(BaseException):
    """Unwinds a controlled thread when the execution is torn down."""


class Deadlock(Exception):
    pass


class Horizon(Exception):
    pass


class ReplayDivergence(Exception):
    pass


_current = {"sched": None}
_instrumented: dict = {}
_tool_ready = [False]


def _on_instruction(code, offset):
    s = _current["sched"]
    if s is None:
        return
    offs = _instrumented.get(code)
    if offs is None or offset not in offs:
        return
    if s.active is not None and code not in s.active:
        return  # instrumented for another harness that ran earlier in this process
    t = s.by_ident.get(_threading.get_ident())
    if t is None:
        return
    s.point(("i", code.co_name, offset))


def instrument(*funcs):
    """Register scheduling points on the given functions / methods (idempotent). Returns the set of code objects, to be given to
    Sched.active so that an execution only sees the points of its own harness (the registry itself is process-wide and cumulative)."""
    mine = set()
    mon = sys.monitoring
    if not _tool_ready[0]:
        try:
            mon.use_tool_id(TOOL_ID, "verif-threads")
        except ValueError:
            pass
        mon.register_callback(TOOL_ID, mon.events.INSTRUCTION, _on_instruction)
        _tool_ready[0] = True
    for f in funcs:
        code = f.__code__ if hasattr(f, "__code__") else f
        todo = [code]
        while todo:
            c = todo.pop()
            if c in mine:
                continue
            mine.add(c)
            if c not in _instrumented:
                _instrumented[c] = {i.offset for i in dis.get_instructions(c) if i.opname in POINT_OPS}
                mon.set_local_events(TOOL_ID, c, mon.events.INSTRUCTION)
            todo.extend(k for k in c.co_consts if isinstance(k, types.CodeType))
    return mine


class TState:
    def __init__(self, tid, name):
        self.tid = tid
        self.name = name
        self.sem = _threading.Semaphore(0)
        self.done = False
        self.blocked_on = None  # callable returning True when the thread may continue
        self.poller = False
        self.last = None
        self.real = None
        self.error = None


class Sched:
    def __init__(self, prefix, horizon=20000):
        self.prefix = list(prefix)
        self.horizon = horizon
        self.threads: list[TState] = []
        self.by_ident: dict = {}
        self.current: TState | None = None
        self.points: list = []
        self.labels: list = []
        self.solo_steps = 0
        self.livelock_after = 30000  # consecutive scheduling points with a single runnable thread
        self.active = None  # code objects whose instruction events are scheduling points in this execution (None = all registered)
        self.obs: list = []
        self.state_digests: list = []
        self.abort = False
        self.clock = 1000.0
        self.rounds = 0
        self.failure = None
        self.state_fn = lambda: ()
        self.main_done = _threading.Event()
        self.nsteps = 0

    # ---- thread management
    def spawn(self, fn, name):
        t = TState(len(self.threads), name)
        self.threads.append(t)

        def body():
            self.by_ident[_threading.get_ident()] = t
            t.sem.acquire()
            try:
                if not self.abort:
                    fn()
            except Abort:
                pass
            except BaseException as e:  # noqa: BLE001
                t.error = e
            finally:
                t.done = True
                self._finish(t)

        t.real = _threading.Thread(target=body, daemon=True)
        t.real.start()
        return t

    def _enabled(self, t):
        if t.done:
            return False
        if t.blocked_on is not None:
            if t.blocked_on():
                t.blocked_on = None
                return True
            return False
        return True

    def _finish(self, t):
        # thread t ended: hand the baton to somebody else, or finish the execution
        if self.abort:
            self._wake_all()
            return
        nxt = self._choose(t, yielding=True, finished=True)
        if nxt is None:
            self.main_done.set()
        else:
            self.current = nxt
            nxt.sem.release()

    def _wake_all(self):
        for t in self.threads:
            t.sem.release()
        self.main_done.set()

    def _choose(self, cur, yielding, finished=False):
        """Pick the next thread to run at a scheduling point of `cur`."""
        others = [t for t in self.threads if t is not cur and self._enabled(t)]
        cur_ok = (not finished) and self._enabled(cur)
        if not yielding and cur_ok:
            options = [cur] + others
        else:
            # voluntary yield / blocked / finished: non-pollers first, then pollers, the yielding thread last
            options = [t for t in others if not t.poller] + [t for t in others if t.poller] + ([cur] if cur_ok else [])
        if not options:
            if all(t.done for t in self.threads):
                return None
            self.failure = ("deadlock", [(t.name, "done" if t.done else "blocked") for t in self.threads])
            self.abort = True
            self._wake_all()
            return None
        if len(options) == 1:
            # no choice here; but only-one-runnable-thread-forever is a livelock (a poller spinning while everybody else waits for it)
            self.solo_steps += 1
            if self.solo_steps > self.livelock_after:
                self.failure = ("livelock", [(t.name, "done" if t.done else ("blocked" if t.blocked_on is not None else "running"), t.last) for t in self.threads])
                self.abort = True
                self._wake_all()
                return None
            return options[0]
        self.solo_steps = 0
        i = len(self.points)
        if i >= self.horizon:
            self.failure = ("horizon", i)
            self.abort = True
            self._wake_all()
            return None
        if i < len(self.prefix):
            c = self.prefix[i]
            if c >= len(options):
                self.failure = ("divergence", f"choice {c} of {len(options)} at point {i}")
                self.abort = True
                self._wake_all()
                return None
        else:
            c = 0
        self.points.append((len(options), c))
        self.labels.append((cur.name, cur.last, tuple(t.name for t in options)))
        self.state_digests.append(hashlib.sha1(repr((cur.name, cur.last, [(t.name, t.last, t.done) for t in self.threads], self.state_fn())).encode()).hexdigest()[:16])
        return options[c]

    def point(self, where, yielding=False):
        """Scheduling point of the calling (controlled) thread."""
        t = self.by_ident.get(_threading.get_ident())
        if t is None:
            return
        if self.abort:
            raise Abort()
        t.last = where
        self.nsteps += 1
        nxt = self._choose(t, yielding)
        if nxt is None:
            raise Abort()
        if nxt is not t:
            self.current = nxt
            nxt.sem.release()
            t.sem.acquire()
            if self.abort:
                raise Abort()

    def block_until(self, cond, where):
        t = self.by_ident[_threading.get_ident()]
        while not cond():
            t.blocked_on = cond
            self.point(where, yielding=True)
        t.blocked_on = None

    def run(self, main_fn, timeout=60):
        """Run main_fn as controlled thread 0 until every controlled thread finished (or failure)."""
        _current["sched"] = self
        try:
            m = self.spawn(main_fn, "main")
            self.current = m
            m.sem.release()
            if not self.main_done.wait(timeout):
                self.failure = self.failure or ("stuck", [(t.name, t.done, t.last) for t in self.threads])
                self.abort = True
                self._wake_all()
            for t in self.threads:
                t.real.join(2)
        finally:
            _current["sched"] = None
        for t in self.threads:
            if t.error is not None and self.failure is None:
                self.failure = ("thread-exception", t.name, repr(t.error))
        return self.failure


# ------------------------------------------------------------------------------------------------ controlled primitives
def sched() -> Sched:
    return _current["sched"]


class CLock:
    def __init__(self):
        self.held_by = None
        s = sched()
        if s is not None:
            s.nlocks = getattr(s, "nlocks", 0) + 1
            self.seq = s.nlocks  # creation order within the execution: a stable label (memory addresses differ between processes)
        else:
            self.seq = 0

    def acquire(self, blocking=True, timeout=-1):
        s = sched()
        if s is None or s.by_ident.get(_threading.get_ident()) is None:
            self.held_by = "outside"
            return True
        s.point(("lock-acquire", self.seq))
        if self.held_by is not None:
            if not blocking:
                return False
            s.block_until(lambda: self.held_by is None, ("lock-wait",))
        self.held_by = _threading.get_ident()
        return True

    def release(self):
        self.held_by = None
        s = sched()
        if s is not None and s.by_ident.get(_threading.get_ident()) is not None:
            s.point(("lock-release",))

    def locked(self):
        return self.held_by is not None

    __enter__ = acquire

    def __exit__(self, *a):
        self.release()


class CEvent:
    def __init__(self):
        self._flag = False

    def is_set(self):
        return self._flag

    def set(self):
        self._flag = True

    def clear(self):
        self._flag = False

    def wait(self, timeout=None):
        """A timed wait is a poll: the clock advances by the timeout and the thread yields to everybody else."""
        s = sched()
        t = s.by_ident.get(_threading.get_ident()) if s else None
        if t is None:
            return self._flag
        if self._flag:
            return True
        if timeout is None:
            s.block_until(lambda: self._flag, ("event-wait",))
            return True
        t.poller = True
        s.rounds += 1
        s.point(("event-poll",), yielding=True)
        s.clock += timeout
        return self._flag


class CThread:
    def __init__(self, target=None, daemon=None, args=(), kwargs=None, name=None):
        self._target, self._args, self._kwargs = target, args, kwargs or {}
        self._t = None
        self.daemon = daemon
        self.name = name or "thread"

    def start(self):
        s = sched()
        self._t = s.spawn(lambda: self._target(*self._args, **self._kwargs), self.name)
        s.point(("thread-start",))

    def is_alive(self):
        return self._t is not None and not self._t.done

    @property
    def ident(self):
        return self._t.real.ident if self._t is not None else None

    def join(self, timeout=None):
        s = sched()
        if self._t is None:
            return
        s.block_until(lambda: self._t.done, ("join",))


def make_shims():
    """Module-like objects to put in place of `threading` and `time` in a target module's namespace."""
    th = types.SimpleNamespace(Lock=CLock, RLock=CLock, Event=CEvent, Thread=CThread, get_ident=_threading.get_ident,
                               current_thread=_threading.current_thread, local=_threading.local)
    tm = types.SimpleNamespace(time=lambda: sched().clock if sched() else 0.0, sleep=lambda d: csleep(d), monotonic=lambda: sched().clock if sched() else 0.0)
    return th, tm


def csleep(duration):
    s = sched()
    t = s.by_ident.get(_threading.get_ident()) if s else None
    if t is None:
        return
    was = t.poller
    t.poller = True
    s.point(("sleep",), yielding=True)
    s.clock += duration
    t.poller = was
