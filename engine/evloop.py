"""Controlled event loop for the real redun Scheduler + stateless deviation-bounded explorer.

The harness owns (a) which in-flight job reports completion and (b) where in the scheduler's event
sequence that report lands.  Every scheduler mutation happens on the main thread inside an event,
and executors only ever `put` one event per report, so these choices span the whole schedule space.
"""
from __future__ import annotations

import hashlib
import inspect
from collections import Counter, deque
from typing import Any, Callable, Optional

from engine import seams


class Hang(BaseException):
    """Queue empty, nothing in flight, workflow promise pending: the run can never finish."""


class Horizon(BaseException):
    """More choice points than the harness horizon (reported as a cap, never as success)."""


class ReplayDivergence(Exception):
    """A replayed prefix did not fit the execution (harness nondeterminism) — hard error."""


def job_key(job) -> tuple:
    """Stable, id-free description of a job: task name + repr of evaluated args."""
    try:
        args = job.args if job.args is not None else job.eval_args
        a = repr(args[0]) + repr(sorted(args[1].items())) if args else "?"
    except Exception:
        a = "?"
    return (job.task.fullname, a)


def event_desc(ev) -> tuple:
    """(kind, job key) of a queued scheduler event (a lambda closing over the job)."""
    code = getattr(ev, "__code__", None)
    kind = "?"
    jk: Any = None
    if code is not None:
        for n in code.co_names:
            if n.startswith("_") and n.endswith("main_thread"):
                kind = n
                break
        else:
            kind = ",".join(code.co_names[:3])
        if ev.__closure__:
            for name, cell in zip(code.co_freevars, ev.__closure__):
                if name == "job":
                    try:
                        j = cell.cell_contents
                        jk = job_key(j) if j is not None else None
                    except Exception:
                        pass
    return (kind, jk)


class Controller:
    def __init__(self, prefix: list[int], horizon: int = 4000):
        self.prefix = list(prefix)
        self.horizon = horizon
        self.Q: deque = deque()
        self.F: list = []  # in-flight jobs, submission order
        self.points: list[tuple[int, int]] = []  # (n_options, chosen)
        self.obs: list = []  # observation log (id-free)
        self.state_digests: list[str] = []
        self.scheduler = None
        self.monitors: list[Callable] = []  # called at every choice point with (ctl)
        self.submits: list = []  # (job, key)
        self.func_calls: Counter = Counter()
        self.all_jobs: list = []
        self.run_index = 0

    # ---- executor side
    def on_submit(self, job, script=False):
        self.F.append(job)
        self.submits.append(job)
        self.obs.append(("submit", self.run_index, job_key(job), dict(job.get_limits())))

    def complete(self, job):
        self.F.remove(job)
        args, kwargs = job.args
        self.func_calls[job.task.fullname] += 1
        self.obs.append(("complete", self.run_index, job_key(job)))
        sched = self.scheduler
        try:
            if job.task.script:
                from redun.scripting import exec_script, get_task_command

                result = exec_script(get_task_command(job.task, args, kwargs))
            else:
                result = job.task.func(*args, **kwargs)
                if inspect.iscoroutine(result):
                    result.close()
                    raise RuntimeError("async task reached the controlled executor")
            sched.done_job(job, result)
        except Exception as error:  # same contract as LocalExecutor.on_done
            sched.reject_job(job, error)

    # ---- queue side
    def put(self, ev):
        self.Q.append(ev)

    def empty(self) -> bool:
        return not self.Q

    def digest(self) -> str:
        s = self.scheduler
        parts = (
            sorted(job_key(j) for j in self.F),
            [event_desc(e) for e in self.Q],
            sorted((k, v) for k, v in s.limits_used.items() if v),
            [job_key(j) for j, _ in s._jobs_pending_limits],
            sorted(job_key(j) for j in s._pending_jobs.values()),
            sorted((k, sorted(v.items())) for k, v in s._finalized_jobs.items()),
            len(s._jobs),
        )
        return hashlib.sha1(repr(parts).encode()).hexdigest()[:16]

    def get(self, timeout=None):
        while True:
            n = (1 if self.Q else 0) + len(self.F)
            if n == 0:
                raise Hang()
            for m in self.monitors:
                m(self)
            i = len(self.points)
            if i >= self.horizon:
                raise Horizon()
            if i < len(self.prefix):
                c = self.prefix[i]
                if c >= n:
                    raise ReplayDivergence(f"choice {c} at point {i} but only {n} options")
            else:
                c = 0
            self.points.append((n, c))
            self.state_digests.append(self.digest())
            if self.Q:
                if c == 0:
                    return self.Q.popleft()
                self.complete(self.F[c - 1])
            else:
                self.complete(self.F[c])


class CtlQueue:
    def __init__(self, ctl: Controller):
        self.ctl = ctl

    def put(self, ev, *a, **k):
        self.ctl.put(ev)

    def get(self, *a, **k):
        return self.ctl.get()

    def empty(self):
        return self.ctl.empty()

    def qsize(self):
        return len(self.ctl.Q)


def make_executor(name: str, ctl: Controller, supports_async: bool = False):
    from redun.executors.base import Executor

    class CtlExecutor(Executor):
        def supports_async(self):
            return supports_async

        def submit(self, job):
            ctl.on_submit(job)

        def submit_script(self, job):
            ctl.on_submit(job, script=True)

    return CtlExecutor(name)


class Env:
    """One execution of a scenario: a backend (SQLite file) + a controller spanning all runs."""

    def __init__(self, prefix=(), limits: Optional[dict] = None, context: Optional[dict] = None,
                 db_path: Optional[str] = None, horizon: int = 4000, extra_config: Optional[dict] = None,
                 backend_conf: Optional[dict] = None, id_salt: int = 0):
        seams.install_determinism()
        seams.reset_determinism(id_salt)
        self.ctl = Controller(list(prefix), horizon)
        self.limits = limits or {}
        self.context = context
        self.own_db = db_path is None
        self.db_path = db_path or seams.fresh_db_path("ev")
        self.backend_conf = backend_conf or {}
        self.backend = seams.open_backend(self.db_path, **self.backend_conf)
        self.extra_config = extra_config or {}
        self.outcomes: list = []
        self.schedulers: list = []
        self.hooks: list[Callable] = []  # called with (env, scheduler) after scheduler creation

    def new_scheduler(self):
        import json

        from redun import Scheduler
        from redun.config import Config

        cd: dict = {k: dict(v) for k, v in self.extra_config.items()}
        if self.limits:
            cd["limits"] = {k: str(v) for k, v in self.limits.items()}
        if self.context is not None:
            cd.setdefault("scheduler", {})["context"] = json.dumps(self.context)
        ex = make_executor("default", self.ctl)
        s = Scheduler(config=Config(config_dict=cd), backend=self.backend, executor=ex)
        s.add_executor(make_executor("alt", self.ctl))
        s.add_executor(make_executor("asyncok", self.ctl, supports_async=True))
        s.events_queue = CtlQueue(self.ctl)
        self.ctl.scheduler = s
        self.schedulers.append(s)
        for h in self.hooks:
            h(self, s)
        return s

    def run(self, expr, reuse_scheduler=False, **kw):
        """Run one execution under the controller. Returns an id-free outcome tuple.
        reuse_scheduler: run on the Scheduler object of the previous run (a scheduler may be reused for several executions)."""
        from redun.scheduler import DryRunResult

        s = self.schedulers[-1] if reuse_scheduler and self.schedulers else self.new_scheduler()
        self.ctl.Q.clear()
        self.ctl.F.clear()
        self.ctl.run_index = len(self.outcomes)
        try:
            v = s.run(expr, **kw)
            out = ("ok", v)
        except Hang:
            out = ("hang",)
        except DryRunResult:
            out = ("dryrun-stop",)
        except Exception as e:  # noqa: BLE001 - the outcome *is* the exception
            out = ("err", type(e).__name__, str(e))
        self.outcomes.append(out)
        self.ctl.obs.append(("outcome", self.ctl.run_index, out[0], repr(out[1:])[:300]))
        return out

    def reopen_backend(self):
        """A new backend object on the same database file (what the next `redun run` process would construct):
        nothing kept in the old object's memory survives."""
        seams.close_backend(self.backend)
        self.backend = seams.open_backend(self.db_path, **self.backend_conf)

    def close(self):
        seams.close_backend(self.backend)
        if self.own_db:
            seams.remove_db(self.db_path)


class ExploreStats:
    def __init__(self):
        self.executions = 0
        self.states: set = set()
        self.transitions: set = set()
        self.max_points = 0
        self.outcomes: Counter = Counter()
        self.capped = False
        self.horizon_hits = 0
        self.max_deviations = 0

    def merge(self, other: "ExploreStats"):
        self.executions += other.executions
        self.states |= other.states
        self.transitions |= other.transitions
        self.max_points = max(self.max_points, other.max_points)
        self.outcomes.update(other.outcomes)
        self.capped = self.capped or other.capped
        self.horizon_hits += other.horizon_hits
        self.max_deviations = max(self.max_deviations, other.max_deviations)

    def as_dict(self):
        return {
            "executions": self.executions,
            "states": len(self.states),
            "transitions": len(self.transitions),
            "max_points": self.max_points,
            "outcomes": dict(self.outcomes),
            "capped": self.capped,
            "horizon_hits": self.horizon_hits,
            "max_deviations": self.max_deviations,
        }


def explore(scenario: Callable[[list], Any], bound: Optional[int], max_execs: int,
            on_execution: Callable[[list, Any], None], start_prefix: Optional[list] = None,
            selfcheck: bool = True) -> ExploreStats:
    """Stateless DFS over choice prefixes.

    scenario(prefix) -> (ctl, result): runs the whole scenario from a fresh state, replaying `prefix` and
    taking choice 0 afterwards. `bound` = max number of non-default choices (None = full tree).
    on_execution(choices, result) checks one complete execution.
    """
    stats = ExploreStats()
    stack: list[list[int]] = [list(start_prefix or [])]
    first = selfcheck
    while stack:
        prefix = stack.pop()
        if stats.executions >= max_execs:
            stats.capped = True
            break
        ctl, result = scenario(prefix)
        if first:
            # replay-determinism self-check: same prefix, fresh state, identical observations
            ctl2, _ = scenario(prefix)
            if ctl2.obs != ctl.obs or ctl2.points != ctl.points:
                raise ReplayDivergence(f"two runs of prefix {prefix} differ:\n{ctl.obs}\n{ctl2.obs}")
            first = False
        stats.executions += 1
        choices = [c for _, c in ctl.points]
        if choices[: len(prefix)] != prefix[: len(choices)] or len(choices) < len(prefix):
            raise ReplayDivergence(f"prefix {prefix} not reproduced: {choices}")
        stats.max_points = max(stats.max_points, len(choices))
        prev = "init"
        for d, c in zip(ctl.state_digests, choices):
            stats.states.add(d)
            stats.transitions.add((prev, d))
            prev = d + ":" + str(c)
        dev = sum(1 for c in choices if c)
        stats.max_deviations = max(stats.max_deviations, dev)
        on_execution(choices, result)
        # children: deviate at every point after the prefix
        devs_before = sum(1 for c in choices[: len(prefix)] if c)
        new = []
        for i in range(len(prefix), len(choices)):
            n, c = ctl.points[i]
            if bound is None or devs_before + 1 <= bound:
                for alt in range(1, n):
                    new.append(choices[:i] + [alt])
            if c:
                devs_before += 1
        stack.extend(reversed(new))
    return stats
