"""Runner plumbing shared by all checks: context, worker pool, findings, replays, evidence."""
from __future__ import annotations

import argparse
import atexit
import hashlib
import importlib
import json
import logging
import multiprocessing
import os
import shutil
import sys
import time
import traceback
from typing import Any, Callable, Iterable

ROOT = os.path.dirname(os.path.dirname(os.path.abspath(__file__)))
# VERIF_SCRATCH_EVIDENCE=1: experiments against a mutated tree must not overwrite the committed evidence files
EVIDENCE_DIR = os.path.join(ROOT, "evidence") if not os.environ.get("VERIF_SCRATCH_EVIDENCE") else "/dev/shm/verif-scratch-evidence"
REPLAY_DIR = os.path.join(ROOT, "replays")
FINDINGS_FILE = os.path.join(ROOT, "known_findings.txt")
EVIDENCE_SCHEMA = "/root/.vp/EVIDENCE.schema.json"
SHM = "/dev/shm" if os.path.isdir("/dev/shm") else "/var/tmp"

_main_pid = os.getpid()
_scratch_root = os.path.join(SHM, f"verif-{_main_pid}")


def scratch_dir() -> str:
    """Per-process scratch directory (under /dev/shm), removed when the main process exits."""
    d = os.path.join(_scratch_root, f"p{os.getpid()}")
    os.makedirs(d, exist_ok=True)
    return d


def _cleanup():
    if os.getpid() == _main_pid:
        shutil.rmtree(_scratch_root, ignore_errors=True)


atexit.register(_cleanup)


def quiet_redun():
    import warnings

    warnings.filterwarnings("ignore")
    logging.getLogger("redun").setLevel(logging.CRITICAL + 10)
    logging.getLogger("redun").disabled = True
    logging.getLogger("alembic").setLevel(logging.CRITICAL + 10)
    logging.getLogger("sqlalchemy").setLevel(logging.CRITICAL + 10)


def _worker_init():
    quiet_redun()
    # workers must not clean the shared root
    import signal

    signal.signal(signal.SIGINT, signal.SIG_IGN)


def digest(obj: Any) -> str:
    return hashlib.sha1(json.dumps(obj, sort_keys=True, default=repr).encode()).hexdigest()[:12]


def jsonable(x: Any) -> Any:
    """Best-effort conversion of a case description to JSON."""
    if isinstance(x, (str, int, float, bool)) or x is None:
        return x
    if isinstance(x, bytes):
        return {"__bytes__": x.hex()}
    if isinstance(x, tuple):
        return {"__tuple__": [jsonable(i) for i in x]}
    if isinstance(x, list):
        return [jsonable(i) for i in x]
    if isinstance(x, (set, frozenset)):
        return {"__set__": sorted((jsonable(i) for i in x), key=repr)}
    if isinstance(x, dict):
        if all(isinstance(k, str) for k in x):
            return {k: jsonable(v) for k, v in x.items()}
        return {"__dict__": [[jsonable(k), jsonable(v)] for k, v in x.items()]}
    return {"__repr__": repr(x)}


def unjson(x: Any) -> Any:
    if isinstance(x, list):
        return [unjson(i) for i in x]
    if isinstance(x, dict):
        if "__bytes__" in x and len(x) == 1:
            return bytes.fromhex(x["__bytes__"])
        if "__tuple__" in x and len(x) == 1:
            return tuple(unjson(i) for i in x["__tuple__"])
        if "__set__" in x and len(x) == 1:
            return set(unjson(i) for i in x["__set__"])
        if "__dict__" in x and len(x) == 1:
            return {unjson(k): unjson(v) for k, v in x["__dict__"]}
        return {k: unjson(v) for k, v in x.items()}
    return x


class Ctx:
    def __init__(self, prop: str, tier: str, seed: int):
        self.prop = prop
        self.tier = tier
        self.seed = seed
        self.t0 = time.time()
        self.nproc = int(os.environ.get("VERIF_NPROC", "0")) or min(16, os.cpu_count() or 1)
        self.violations: list[dict] = []
        self._pool = None
        self.notes: list[str] = []

    @property
    def quick(self) -> bool:
        return self.tier == "quick"

    def pick(self, quick, thorough):
        return quick if self.tier == "quick" else thorough

    def rotate(self, items: list) -> list:
        """Rotate enumeration order by the seed: the covered set is unchanged."""
        if not items:
            return items
        k = self.seed % len(items)
        return items[k:] + items[:k]

    def violation(self, sig: str, case: Any, detail: str):
        self.violations.append({"sig": sig, "case": jsonable(case), "detail": str(detail)[:4000]})

    def add_results(self, results: Iterable[dict]):
        """Merge `viol` lists of worker results ([(sig, case, detail), ...])."""
        for r in results:
            for sig, case, detail in r.get("viol", ()):
                self.violation(sig, case, detail)

    def pool(self):
        if self._pool is None:
            mp = multiprocessing.get_context("fork")
            self._pool = mp.Pool(self.nproc, initializer=_worker_init)
        return self._pool

    def pmap(self, fn: Callable, items: list, chunksize: int | None = None) -> list:
        items = list(items)
        if not items:
            return []
        if self.nproc <= 1 or len(items) == 1:
            return [fn(i) for i in items]
        if chunksize is None:
            chunksize = max(1, min(64, len(items) // (self.nproc * 8)))
        return self.pool().map(_guard, [(fn, i) for i in items], chunksize)

    def pmap_nondaemonic(self, fn: Callable, items: list) -> list:
        """Like pmap, but the workers may start child processes themselves (e.g. redun's process executor)."""
        import concurrent.futures as cf

        items = list(items)
        if not items:
            return []
        mp = multiprocessing.get_context("fork")
        with cf.ProcessPoolExecutor(max_workers=self.nproc, mp_context=mp, initializer=_worker_init) as ex:
            return list(ex.map(_guard, [(fn, i) for i in items]))

    def close(self):
        if self._pool is not None:
            self._pool.close()
            self._pool.join()
            self._pool = None


def _guard(arg):
    fn, item = arg
    try:
        return fn(item)
    except BaseException:
        # An exception in the harness itself is never a property verdict: surface loudly.
        return {"harness_error": traceback.format_exc(), "item": repr(item)[:500]}


class HarnessError(Exception):
    pass


def check_harness_errors(results: list):
    errs = [r for r in results if isinstance(r, dict) and "harness_error" in r]
    if errs:
        raise HarnessError(
            f"{len(errs)} harness errors; first:\n{errs[0]['harness_error']}\nitem={errs[0]['item']}"
        )


def load_findings() -> tuple[dict, list]:
    known: dict[tuple[str, str], str] = {}
    fixed: list[str] = []
    if os.path.exists(FINDINGS_FILE):
        for line in open(FINDINGS_FILE):
            line = line.strip()
            if not line or line.startswith("#"):
                continue
            if line.startswith("known:"):
                rest = line[len("known:"):].strip()
                parts = rest.split(None, 2)
                prop = parts[0].split("=", 1)[1]
                key = parts[1].split("=", 1)[1]
                known[(prop, key)] = parts[2] if len(parts) > 2 else ""
            elif line.startswith("fixed:"):
                fixed.append(line)
    return known, fixed


def write_replay(prop: str, v: dict) -> str:
    os.makedirs(REPLAY_DIR, exist_ok=True)
    path = os.path.join(REPLAY_DIR, f"{prop}-{digest([v['sig'], v['case']])}.json")
    with open(path, "w") as f:
        json.dump({"property": prop, "sig": v["sig"], "case": v["case"], "detail": v["detail"]}, f, indent=1)
    return path


def write_evidence(ctx: Ctx, level: str, coverage: dict, assumptions: list, nviol: int) -> str:
    os.makedirs(EVIDENCE_DIR, exist_ok=True)
    ev = {
        "property_id": ctx.prop,
        "tier": ctx.tier,
        "seed": ctx.seed,
        "level": level,
        "coverage": coverage,
        "assumptions": assumptions,
        "wall_s": round(time.time() - ctx.t0, 2),
        "violations": nviol,
    }
    try:
        import jsonschema

        jsonschema.validate(ev, json.load(open(EVIDENCE_SCHEMA)))
    except ImportError:
        pass
    except FileNotFoundError:
        pass
    path = os.path.join(EVIDENCE_DIR, f"{ctx.prop}.json")
    tmp = path + ".tmp"
    with open(tmp, "w") as f:
        json.dump(ev, f, indent=1, default=repr)
    os.replace(tmp, path)
    return path


def main(argv: list[str]) -> int:
    ap = argparse.ArgumentParser()
    ap.add_argument("prop")
    ap.add_argument("--tier", default=os.environ.get("VERIF_TIER", "quick"), choices=["quick", "thorough"])
    ap.add_argument("--replay")
    args = ap.parse_args(argv)
    prop = args.prop.upper()
    seed = int(os.environ.get("VERIF_SEED", "0") or 0)
    quiet_redun()
    mod = importlib.import_module(f"checks.{prop.lower()}")
    ctx = Ctx(prop, args.tier, seed)
    known, _fixed = load_findings()

    if args.replay:
        rp = json.load(open(args.replay))
        case = rp["case"]
        if hasattr(mod, "replay"):
            out1 = mod.replay(ctx, case)
            out2 = mod.replay(ctx, case)
        else:
            # generic replay: re-run the whole (deterministic) exploration and look for the signature
            try:
                mod.run(ctx)
            finally:
                ctx.close()
            out1 = out2 = [(v["sig"], v["detail"]) for v in ctx.violations if v["sig"] == rp["sig"]][:1]
        if [s for s, _ in out1] != [s for s, _ in out2]:
            print(f"REPLAY-NONDETERMINISTIC property={prop} {out1!r} vs {out2!r}")
            return 2
        rc = 0
        for sig, detail in out1:
            if (prop, sig) in known:
                print(f"KNOWN-FINDING: property={prop} {sig} {known[(prop, sig)]}")
            else:
                print(f"VIOLATION property={prop} replay={args.replay}")
                print(f"  sig={sig}\n  {detail}")
                rc = 1
        if not out1:
            print(f"replay: property {prop} holds on this case")
        return rc

    try:
        res = mod.run(ctx)
    finally:
        ctx.close()
    coverage = res["coverage"]
    assumptions = res.get("assumptions", [])
    # group by signature, keep the first (engines enumerate simplest-first)
    by_sig: dict[str, dict] = {}
    counts: dict[str, int] = {}
    for v in ctx.violations:
        by_sig.setdefault(v["sig"], v)
        counts[v["sig"]] = counts.get(v["sig"], 0) + 1
    rc = 0
    new = 0
    known_hit = []
    for sig, v in by_sig.items():
        if (prop, sig) in known:
            print(f"KNOWN-FINDING: property={prop} {sig} ({counts[sig]} cases) {known[(prop, sig)]}")
            known_hit.append(sig)
        else:
            path = write_replay(prop, v)
            print(f"VIOLATION property={prop} replay={path}")
            print(f"  sig={sig} cases={counts[sig]}\n  {v['detail'][:1500]}")
            rc = 1
            new += 1
    coverage.setdefault("known_findings_reproduced", sorted(known_hit))
    path = write_evidence(ctx, mod.LEVEL, coverage, assumptions, new)
    brief = {k: v for k, v in coverage.items() if isinstance(v, (int, float, bool))}
    print(f"{prop} tier={ctx.tier} seed={seed} wall={time.time()-ctx.t0:.1f}s {brief} evidence={path}")
    return rc
