"""Workflow program family (ASTs as nested tuples), a builder into real redun expressions, and a
reference interpreter following docs/source/implementation/evaluation.md.

The reference interpreter returns the *set of admissible outcomes*: when several independent
sub-expressions can fail, which rejection is observed first is legitimately schedule dependent.
An outcome is ("val", v) or ("err", type_name, message).
"""
from __future__ import annotations

import functools
import itertools

# ------------------------------------------------------------------------------------------------
# Typed grammar.  Types: "i" int, "l" list of ints.
# size(node) = 1 + sum(size(children)); constants have size 1.

CONSTS = [0, 1]


@functools.lru_cache(maxsize=None)
def gen(typ: str, size: int, rich: bool = True) -> tuple:
    out = []
    if typ == "i":
        if size == 1:
            out += [("c", c) for c in CONSTS]
        if size >= 2:
            for e in gen("i", size - 1, rich):
                for t in ("inc", "ident", "fail", "twice", "dflt"):
                    out.append(("call", t, (e,)))
                out.append(("forkjoin", e))
                out.append(("tags", e))
                out.append(("catch", e, "ValueError", "recover"))
                if rich:
                    out.append(("call", "fail_key", (e,)))
                    out.append(("catch", e, "KeyError", "recover"))
                    out.append(("catch", e, "ValueError", "reraise"))
                    out.append(("nout", e, 1))
                    out.append(("throw", e))
            for e in gen("l", size - 1, rich):
                out.append(("getitem", e, 0))
                if rich:
                    out.append(("getitem", e, 1))
                    out.append(("apply_func", "len", (e,)))
        if size >= 3:
            for a, b in split2(size - 1, "i", "i", rich):
                out.append(("call", "add", (a, b)))
                out.append(("op+", a, b))
                if rich:
                    out.append(("partial", "add", (a,), (b,)))
                    out.append(("kwcall", "add", (a,), (("b", b),)))
        if size >= 4:
            for a, b, c in split3(size - 1, "i", rich):
                out.append(("cond", a, b, c))
    elif typ == "l":
        if size >= 2:
            for e in gen("i", size - 1, rich):
                out.append(("call", "fan", (e,)))
                out.append(("call", "mklist", (e,)))
                out.append(("list", (e,)))
            for e in gen("l", size - 1, rich):
                out.append(("map", "inc", e))
                out.append(("flat_map", "mklist", e))
                if rich:
                    out.append(("map", "fail", e))
                    out.append(("call", "ident", (e,)))
        if size >= 3:
            for a, b in split2(size - 1, "i", "i", rich):
                out.append(("list", (a, b)))
                out.append(("seq", (a, b)))
                out.append(("catch_all", (a, b), "ValueError", "recover_all"))
                if rich:
                    out.append(("catch_all", (a, b), "ValueError", None))
            for a, b in split2(size - 1, "i", "l", rich):
                out.append(("map_partial", "add", a, b))
    return tuple(out)


def split2(total, t1, t2, rich):
    for s1 in range(1, total):
        for a in gen(t1, s1, rich):
            for b in gen(t2, total - s1, rich):
                yield a, b


def split3(total, t, rich):
    for s1 in range(1, total - 1):
        for s2 in range(1, total - s1):
            for a in gen(t, s1, rich):
                for b in gen(t, s2, rich):
                    for c in gen(t, total - s1 - s2, rich):
                        yield a, b, c


def roots(size: int, rich: bool = True):
    """Root programs of exactly `size`: typed expressions plus container wrappers at the root."""
    out = list(gen("i", size, rich)) + list(gen("l", size, rich))
    if size >= 2:
        for e in gen("i", size - 1, rich):
            out.append(("tuple", (e,)))
            out.append(("dict", (("k", e),)))
            out.append(("set", (e,)))
    if size >= 3:
        for a, b in split2(size - 1, "i", "i", rich):
            out.append(("tuple", (a, b)))
            out.append(("nt", a, b))
            out.append(("dc", a, b))
            out.append(("dict", (("k", a), ("j", b))))
        for a, b in split2(size - 1, "i", "l", rich):
            out.append(("dict", (("k", a), ("j", b))))
            out.append(("call", "ident", (("tuple", (a, b)),)))
    return out


def sharp_programs():
    """Shapes beyond the size bound, one family per shortcut visible in the code: multi-clause cond (if / elif / else chains)."""
    out = []
    conds = [("c", 0), ("c", 1), ("call", "ident", (("c", 0),)), ("call", "ident", (("c", 1),)), ("call", "fail", (("c", 0),))]
    br = lambda k: ("call", "inc", (("c", k),))  # noqa: E731
    for c1 in conds:
        for c2 in conds:
            out.append(("condn", (c1, br(10), c2, br(20), br(30))))
            out.append(("condn", (c1, ("c", 10), c2, ("c", 20), ("c", 30))))
            for c3 in conds[:3]:
                out.append(("condn", (c1, br(10), c2, br(20), c3, br(30), br(40))))
    return out


def programs(max_size: int, rich: bool = True):
    out = []
    for s in range(1, max_size + 1):
        out.extend(roots(s, rich))
    return out


def size(ast) -> int:
    if not isinstance(ast, tuple):
        return 0
    if ast[0] == "c":
        return 1
    return 1 + sum(size(x) for x in _children(ast))


def _children(ast):
    for x in ast[1:]:
        if isinstance(x, tuple) and x and isinstance(x[0], str) and x[0] in KINDS:
            yield x
        elif isinstance(x, tuple):
            for y in x:
                if isinstance(y, tuple) and y and isinstance(y[0], str) and y[0] in KINDS:
                    yield y
                elif isinstance(y, tuple) and len(y) == 2 and isinstance(y[1], tuple):
                    yield y[1]


KINDS = {"condn", "c", "call", "kwcall", "forkjoin", "tags", "catch", "nout", "throw", "getitem", "apply_func", "op+", "partial", "cond",
         "list", "map", "flat_map", "seq", "catch_all", "map_partial", "tuple", "dict", "set", "nt", "dc"}


def count_calls(ast) -> int:
    """Number of user-task call sites (non-triviality measure)."""
    if not isinstance(ast, tuple) or not ast or ast[0] not in KINDS:
        return 0
    n = 1 if ast[0] in ("call", "kwcall", "partial", "nout", "throw", "apply_func", "map", "flat_map", "map_partial") else 0
    return n + sum(count_calls(c) for c in _children(ast))


def has_control(ast) -> bool:
    if not isinstance(ast, tuple) or not ast or ast[0] not in KINDS:
        return False
    if ast[0] in ("cond", "seq", "catch", "catch_all", "map", "flat_map", "map_partial", "forkjoin", "tags", "partial", "apply_func"):
        return True
    return any(has_control(c) for c in _children(ast))


# ------------------------------------------------------------------------------------------------
# Builder: AST -> real redun expression


def build(ast, T=None, opts=None):
    """opts: optional dict task_name -> options dict applied at call time (e.g. executor/mode)."""
    from redun import apply_tags, cond
    from redun.expression import Expression
    from redun.functools import apply_func, flat_map, map_, seq
    from redun.scheduler import catch, catch_all, fork_thread, join_thread, throw

    if T is None:
        import wf.tasks as T  # noqa: N811

    def task(name):
        t = getattr(T, name)
        if opts and name in opts:
            return t.options(**opts[name])
        return t

    def b(a):
        k = a[0]
        if k == "c":
            return a[1]
        if k == "call":
            return task(a[1])(*[b(x) for x in a[2]])
        if k == "kwcall":
            return task(a[1])(*[b(x) for x in a[2]], **{kk: b(v) for kk, v in a[3]})
        if k == "forkjoin":
            return join_thread(fork_thread(b(a[1])))
        if k == "tags":
            return apply_tags(b(a[1]), [("k", 1)])
        if k == "catch":
            return catch(b(a[1]), {"ValueError": ValueError, "KeyError": KeyError}[a[2]], task(a[3]))
        if k == "nout":
            return task("pair")(b(a[1]))[a[2]]
        if k == "throw":
            return throw(T.mkerr(b(a[1])))
        if k == "getitem":
            x = b(a[1])
            if not isinstance(x, Expression):
                x = task("ident")(x)  # a concrete list would be indexed eagerly by Python
            return x[a[2]]
        if k == "apply_func":
            return apply_func({"len": len, "max": max}[a[1]], *[b(x) for x in a[2]])
        if k == "op+":
            x, y = b(a[1]), b(a[2])
            if not isinstance(x, Expression) and not isinstance(y, Expression):
                # both concrete: make the left one lazy so that the lazy operator is exercised
                x = task("ident")(x)
            return x + y
        if k == "partial":
            return task(a[1]).partial(*[b(x) for x in a[2]])(*[b(x) for x in a[3]])
        if k == "cond":
            return cond(b(a[1]), b(a[2]), b(a[3]))
        if k == "condn":
            return cond(*[b(x) for x in a[1]])
        if k == "list":
            return [b(x) for x in a[1]]
        if k == "tuple":
            return tuple(b(x) for x in a[1])
        if k == "set":
            return {b(x) for x in a[1]}
        if k == "dict":
            return {kk: b(v) for kk, v in a[1]}
        if k == "nt":
            return T.Pt(b(a[1]), b(a[2]))
        if k == "dc":
            return T.DC(b(a[1]), b(a[2]))
        if k == "map":
            return map_(task(a[1]), b(a[2]))
        if k == "flat_map":
            return flat_map(task(a[1]), b(a[2]))
        if k == "map_partial":
            return map_(task(a[1]).partial(b(a[2])), b(a[3]))
        if k == "seq":
            return seq([b(x) for x in a[1]])
        if k == "catch_all":
            if a[3] is None:
                return catch_all([b(x) for x in a[1]])
            return catch_all([b(x) for x in a[1]], {"ValueError": ValueError}[a[2]], task(a[3]))
        raise AssertionError(a)

    return b(ast)


# ------------------------------------------------------------------------------------------------
# Reference interpreter

ERRTYPES = {"ValueError": ValueError, "KeyError": KeyError, "TypeError": TypeError, "IndexError": IndexError, "AttributeError": AttributeError}


def V(v):
    return frozenset([("val", Box(v))])


class Box:
    """Hashable wrapper comparing by value and exact type structure."""

    def __init__(self, v):
        self.v = v
        self.k = typed_key(v)

    def __eq__(self, o):
        return isinstance(o, Box) and self.k == o.k

    def __hash__(self):
        return hash(self.k)

    def __repr__(self):
        return f"Box({self.v!r})"


def typed_key(v):
    import dataclasses

    if isinstance(v, BaseException):
        return ("exc", type(v).__name__, str(v))
    if isinstance(v, tuple) and hasattr(v, "_fields"):
        return ("nt", type(v).__name__, tuple(typed_key(x) for x in v))
    if dataclasses.is_dataclass(v) and not isinstance(v, type):
        return ("dc", type(v).__name__, tuple((f.name, typed_key(getattr(v, f.name))) for f in dataclasses.fields(v)))
    if isinstance(v, (list, tuple)):
        return (type(v).__name__, tuple(typed_key(x) for x in v))
    if isinstance(v, (set, frozenset)):
        return (type(v).__name__, tuple(sorted((typed_key(x) for x in v), key=repr)))
    if isinstance(v, dict):
        return ("dict", tuple(sorted(((typed_key(k), typed_key(x)) for k, x in v.items()), key=repr)))
    return (type(v).__name__, v)


def errs(outs):
    return frozenset(o for o in outs if o[0] == "err")


def vals(outs):
    return [o[1].v for o in outs if o[0] == "val"]


def combine(parts, fn):
    """Concurrent evaluation of independent parts: all value combinations -> fn; any error of any part is admissible."""
    out = set()
    for p in parts:
        out |= errs(p)
    vs = [vals(p) for p in parts]
    if all(vs):
        for combo in itertools.product(*vs):
            out |= fn(*combo)
    return frozenset(out)


def seq_bind(first, fn):
    """Sequential dependency: errors of `first` are final; each value continues with fn."""
    out = set(errs(first))
    for v in vals(first):
        out |= fn(v)
    return frozenset(out)


def E(tname, msg):
    return frozenset([("err", tname, msg)])


def ref(ast, T=None) -> frozenset:
    if T is None:
        import wf.tasks as T  # noqa: N811
    k = ast[0]
    r = lambda a: ref(a, T)  # noqa: E731
    if k == "c":
        return V(ast[1])
    if k in ("call", "kwcall"):
        name = ast[1]
        parts = [r(x) for x in ast[2]]
        kwnames = []
        if k == "kwcall":
            kwnames = [kk for kk, _ in ast[3]]
            parts += [r(v) for _, v in ast[3]]
        npos = len(ast[2])

        def call(*a):
            return apply_task(name, a[:npos], dict(zip(kwnames, a[npos:])))

        if name == "dflt":
            # the expression-valued default inc(10) is evaluated concurrently with the arguments
            parts = parts + [V(11)]
            return combine(parts, lambda *a: apply_task("dflt", a[:npos], {"y": a[-1]}))
        return combine(parts, call)
    if k in ("forkjoin", "tags"):
        return r(ast[1])
    if k == "catch":
        inner = r(ast[1])
        out = set(o for o in inner if o[0] == "val")
        for o in errs(inner):
            if issubclass(ERRTYPES.get(o[1], Exception), ERRTYPES[ast[2]]) and o[1] in ERRTYPES:
                err = ERRTYPES[o[1]](o[2]) if o[1] != "KeyError" else KeyError(o[2][1:-1] if o[2].startswith("'") else o[2])
                out |= apply_task(ast[3], (err,), {})
            else:
                out.add(o)
        return frozenset(out)
    if k == "nout":
        return seq_bind(r(ast[1]), lambda v: seq_bind(apply_task("pair", (v,), {}), lambda p: V(p[ast[2]])))
    if k == "throw":
        return seq_bind(r(ast[1]), lambda v: E("ValueError", f"t{v}"))
    if k == "getitem":
        def gi(v):
            try:
                return V(v[ast[2]])
            except IndexError as e:
                return E("IndexError", str(e))
        return seq_bind(r(ast[1]), gi)
    if k == "apply_func":
        f = {"len": len, "max": max}[ast[1]]
        return combine([r(x) for x in ast[2]], lambda *a: V(f(*a)))
    if k == "op+":
        return combine([r(ast[1]), r(ast[2])], lambda a, b: V(a + b))
    if k == "partial":
        parts = [r(x) for x in ast[2]] + [r(x) for x in ast[3]]
        return combine(parts, lambda *a: apply_task(ast[1], a, {}))
    if k == "cond":
        return seq_bind(r(ast[1]), lambda p: r(ast[2]) if p else r(ast[3]))
    if k == "condn":
        parts = ast[1]

        def clause(i):
            if i == len(parts) - 1:
                return r(parts[i])  # the 'otherwise' expression
            return seq_bind(r(parts[i]), lambda p: r(parts[i + 1]) if p else clause(i + 2))

        return clause(0)
    if k == "list":
        return combine([r(x) for x in ast[1]], lambda *a: V(list(a)))
    if k == "tuple":
        return combine([r(x) for x in ast[1]], lambda *a: V(tuple(a)))
    if k == "set":
        return combine([r(x) for x in ast[1]], lambda *a: V(set(a)))
    if k == "dict":
        keys = [kk for kk, _ in ast[1]]
        return combine([r(v) for _, v in ast[1]], lambda *a: V(dict(zip(keys, a))))
    if k == "nt":
        return combine([r(ast[1]), r(ast[2])], lambda a, b: V(T.Pt(a, b)))
    if k == "dc":
        return combine([r(ast[1]), r(ast[2])], lambda a, b: V(T.DC(a, b)))
    if k == "map":
        def m(lst):
            return combine([apply_task(ast[1], (x,), {}) for x in lst], lambda *a: V(list(a)))
        return seq_bind(r(ast[2]), m)
    if k == "flat_map":
        def fm(lst):
            return combine([apply_task(ast[1], (x,), {}) for x in lst], lambda *a: V([y for sub in a for y in sub]))
        return seq_bind(r(ast[2]), fm)
    if k == "map_partial":
        def mp(a, lst):
            return combine([apply_task(ast[1], (a, x), {}) for x in lst], lambda *res: V(list(res)))
        return combine([r(ast[2]), r(ast[3])], mp)
    if k == "seq":
        def step(i, acc):
            if i == len(ast[1]):
                return V(list(acc))
            return seq_bind(r(ast[1][i]), lambda v: step(i + 1, acc + [v]))
        return step(0, [])
    if k == "catch_all":
        parts = [r(x) for x in ast[1]]
        out = set()
        # every element runs to completion; enumerate each element's possible outcome
        for combo in itertools.product(*[sorted(p, key=repr) for p in parts]):
            es = [o for o in combo if o[0] == "err"]
            if not es:
                out |= V([o[1].v for o in combo])
            elif ast[3] is None:
                out.add(es[0])
            elif all(o[1] == ast[2] for o in es):
                mixed = [ERRTYPES[o[1]](o[2]) if o[0] == "err" else o[1].v for o in combo]
                out |= apply_task(ast[3], (mixed,), {})
            else:
                out.add(next(o for o in es if o[1] != ast[2]))
        return frozenset(out)
    raise AssertionError(ast)


def apply_task(name, args, kwargs) -> frozenset:
    """Reference semantics of the task library; an operation Python refuses (e.g. 'a' + 1 for a rich-family string leaf) is the task's error."""
    try:
        return _apply_task(name, args, kwargs)
    except (TypeError, KeyError, IndexError, AttributeError) as e:
        return E(type(e).__name__, str(e))


def _apply_task(name, args, kwargs) -> frozenset:
    a = args
    if name == "inc":
        return V(a[0] + 1)
    if name == "ident":
        return V(a[0])
    if name == "add":
        return V(a[0] + (a[1] if len(a) > 1 else kwargs["b"]))
    if name == "fail":
        return E("ValueError", f"boom:{a[0]}")
    if name == "fail_key":
        return E("KeyError", repr(f"k{a[0]}"))
    if name == "twice":
        return V(a[0] + 2)
    if name == "fan":
        return V([a[0] + 1, a[0] + 2])
    if name == "mklist":
        return V([a[0], a[0] + 1])
    if name == "dflt":
        return V(a[0] + kwargs["y"])
    if name == "pair":
        return V((a[0], a[0] + 1))
    if name == "recover":
        return V(-1)
    if name == "reraise":
        e = a[0]
        return E(type(e).__name__, str(e))
    if name == "recover_all":
        return V(["E" if isinstance(v, Exception) else v for v in a[0]])
    raise AssertionError(name)


def outcome_of(out) -> tuple:
    """Normalize an evloop.Env.run outcome for membership in a ref() set."""
    if out[0] == "ok":
        return ("val", Box(out[1]))
    if out[0] == "err":
        return ("err", out[1], out[2])
    return out
