"""Crash-point and transient-fault enumeration on the SQLite backend."""
from __future__ import annotations

import shutil
import sqlite3

from sqlalchemy import event

from engine import evloop, seams


class Crash(BaseException):
    """Simulated process death (not caught by `except Exception` nor by db_retry)."""


class Injector:
    """Counts commits / statements on one engine and optionally crashes or fails once."""

    def __init__(self, engine, crash_at_commit=None, fault_at_stmt=None, fault_at_stmts=()):
        self.commits = 0
        self.stmts = 0
        self.crash_at_commit = crash_at_commit
        self.fault_at = set(fault_at_stmts) | ({fault_at_stmt} if fault_at_stmt else set())
        self.fired = []
        self.stmt_log = []
        event.listen(engine, "commit", self.on_commit)
        event.listen(engine, "do_execute", self.on_execute)
        self.engine = engine

    def on_commit(self, conn):
        self.commits += 1
        if self.crash_at_commit is not None and self.commits == self.crash_at_commit:
            self.fired.append(("crash", self.commits))
            raise Crash()

    def on_execute(self, cursor, statement, parameters, context):
        self.stmts += 1
        if len(self.stmt_log) < 5000:
            self.stmt_log.append(statement.split(None, 3)[:3])
        if self.stmts in self.fault_at:
            self.fired.append(("fault", self.stmts, statement[:60]))
            raise sqlite3.OperationalError("injected: database is locked")
        return None  # continue with default execution

    def remove(self):
        event.remove(self.engine, "commit", self.on_commit)
        event.remove(self.engine, "do_execute", self.on_execute)


def run_workload(workload, db_path, crash_at=None, fault_at=None, fault_ats=(), backend_conf=None, id_salt=0):
    """Run `workload(env)` on db_path under injection. Returns (outcomes | 'crashed', injector, env.ctl)."""
    env = evloop.Env([], db_path=db_path, backend_conf=backend_conf, id_salt=id_salt)
    inj = Injector(env.backend.engine, crash_at, fault_at, fault_ats)
    try:
        try:
            outs = workload(env)
            status = "done"
        except Crash:
            outs = None
            status = "crashed"
    finally:
        inj.remove()
        try:
            env.backend.session.rollback()
        except Exception:
            pass
        env.close()
    return status, outs, inj


FK_TABLES = None

CLOSURE = [
    ("call_edge.parent", "select parent_id from call_edge where parent_id not in (select call_hash from call_node)"),
    ("call_edge.child", "select child_id from call_edge where child_id not in (select call_hash from call_node)"),
    ("argument.call", "select arg_hash from argument where call_hash not in (select call_hash from call_node)"),
    ("argument.value", "select arg_hash from argument where value_hash not in (select value_hash from value)"),
    ("argument_result.arg", "select arg_hash from argument_result where arg_hash not in (select arg_hash from argument)"),
    ("argument_result.call", "select arg_hash from argument_result where result_call_hash not in (select call_hash from call_node)"),
    ("job.call", "select id from job where call_hash is not null and call_hash not in (select call_hash from call_node)"),
    ("job.execution", "select id from job where execution_id not in (select id from execution)"),
    ("job.parent", "select id from job where parent_id is not null and parent_id not in (select id from job)"),
    ("evaluation.value", "select eval_hash from evaluation where value_hash not in (select value_hash from value)"),
    ("subtree.call", "select call_hash from call_subtree_task where call_hash not in (select call_hash from call_node)"),
    ("subtree.task", "select task_hash from call_subtree_task where task_hash not in (select hash from task)"),
    ("call_node.value", "select call_hash from call_node where value_hash not in (select value_hash from value)"),
    ("call_node.task", "select call_hash from call_node where task_hash not in (select hash from task)"),
    ("subvalue.child", "select value_hash from subvalue where value_hash not in (select value_hash from value)"),
    ("subvalue.parent", "select value_hash from subvalue where parent_value_hash not in (select value_hash from value)"),
    ("execution.job", "select id from execution where job_id is not null and job_id not in (select id from job)"),
]


def consistency(db_path) -> list:
    """Referential-consistency findings of a SQLite file: [(rule, n rows)]."""
    out = []
    con = sqlite3.connect(db_path)
    try:
        fk = con.execute("PRAGMA foreign_key_check").fetchall()
        if fk:
            out.append(("foreign_key_check:" + ",".join(sorted({r[0] for r in fk})), len(fk)))
        for name, q in CLOSURE:
            rows = con.execute(q).fetchall()
            if rows:
                out.append((name, len(rows)))
        ic = con.execute("PRAGMA integrity_check").fetchall()
        if ic != [("ok",)]:
            out.append(("integrity_check", len(ic)))
    finally:
        con.close()
    return out


def subtree_invariant(db_path) -> list:
    """C03 state invariant: every call node's subtree-task set contains its own task and its children's sets."""
    con = sqlite3.connect(db_path)
    try:
        nodes = dict(con.execute("select call_hash, task_hash from call_node").fetchall())
        sub = {}
        for ch, th in con.execute("select call_hash, task_hash from call_subtree_task"):
            sub.setdefault(ch, set()).add(th)
        edges = con.execute("select parent_id, child_id from call_edge").fetchall()
    finally:
        con.close()
    bad = []
    for ch, th in nodes.items():
        if th not in sub.get(ch, set()):
            bad.append(("own-task-missing", ch))
    for p, c in edges:
        if p in nodes and c in nodes and not sub.get(c, set()) <= sub.get(p, set()):
            bad.append(("child-tasks-missing", p))
    return bad


DUMP = {
    "call_node": "select call_hash, task_hash, args_hash, value_hash from call_node",
    "call_edge": "select parent_id, child_id from call_edge",
    "argument": "select arg_hash, call_hash, value_hash, arg_position, arg_key from argument",
    "argument_result": "select arg_hash, result_call_hash from argument_result",
    "call_subtree_task": "select call_hash, task_hash from call_subtree_task",
    "evaluation": "select eval_hash, task_hash, args_hash, value_hash from evaluation",
    "value": "select value_hash, type from value",
    "task": "select hash, name, namespace from task",
    "subvalue": "select value_hash, parent_value_hash from subvalue",
}


def dump(db_path) -> dict:
    con = sqlite3.connect(db_path)
    try:
        d = {}
        for t, q in DUMP.items():
            rows = con.execute(q).fetchall()
            d[t] = sorted(rows, key=repr)
        return d
    finally:
        con.close()


def dump_diff(a: dict, b: dict) -> dict:
    """Per table (as multisets): rows of a missing in b, rows of b not in a."""
    from collections import Counter

    out = {}
    for t in a:
        ca, cb = Counter(a[t]), Counter(b.get(t, []))
        miss, extra = ca - cb, cb - ca
        if miss or extra:
            out[t] = {"missing": sorted(miss, key=repr)[:3], "n_missing": sum(miss.values()), "n_extra": sum(extra.values())}
    return out


def partial_records(ref: dict, got: dict) -> dict:
    """Records present in both dumps must be complete: same arguments / child edges / subtree tasks per call node,
    same subvalue links per value, a task row per Task value, same value per evaluation.
    (A crashed-and-recovered history may legitimately contain fewer or other call nodes than the reference.)"""
    from collections import Counter, defaultdict

    out = {}

    def group(rows, key_idx, val):
        g = defaultdict(Counter)
        for r in rows:
            g[r[key_idx]][val(r)] += 1
        return g

    ref_nodes = {r[0] for r in ref["call_node"]}
    got_nodes = {r[0] for r in got["call_node"]}
    both = ref_nodes & got_nodes
    for table, key_idx, val in (("argument", 1, lambda r: (r[0], r[2], r[3], r[4])), ("call_edge", 0, lambda r: r[1]),
                                ("call_subtree_task", 0, lambda r: r[1])):
        gr, gg = group(ref[table], key_idx, val), group(got[table], key_idx, val)
        bad = [h for h in both if gr.get(h, Counter()) != gg.get(h, Counter())]
        if bad:
            out[table] = {"call_nodes": sorted(bad)[:3], "n": len(bad),
                          "example": {"reference": sorted(gr.get(bad[0], {}).items(), key=repr)[:4], "got": sorted(gg.get(bad[0], {}).items(), key=repr)[:4]}}
    rv, gv = {r[0] for r in ref["value"]}, {r[0] for r in got["value"]}
    sr, sg = group(ref["subvalue"], 1, lambda r: r[0]), group(got["subvalue"], 1, lambda r: r[0])
    bad = [h for h in rv & gv if sr.get(h, Counter()) != sg.get(h, Counter())]
    if bad:
        out["subvalue"] = {"values": sorted(bad)[:3], "n": len(bad)}
    task_vals = {r[0] for r in got["value"] if r[1] == "redun.Task"}
    task_rows = {r[0] for r in got["task"]}
    if task_vals - task_rows:
        out["task"] = {"values_without_task_row": sorted(task_vals - task_rows)[:3], "n": len(task_vals - task_rows)}
    er, eg = {r[0]: r for r in ref["evaluation"]}, {r[0]: r for r in got["evaluation"]}
    bad = [h for h in set(er) & set(eg) if er[h] != eg[h]]
    if bad:
        out["evaluation"] = {"eval_hashes": sorted(bad)[:3], "n": len(bad)}
    return out


def copy_db(src, tag="cp"):
    seams._counter["db"] += 1
    import os

    from engine import common

    dst = os.path.join(common.scratch_dir(), f"{tag}-{seams._counter['db']}.db")
    shutil.copyfile(src, dst)
    return dst
