"""Seams that put redun's nondeterminism under harness control (ids, clock, fresh backends)."""
from __future__ import annotations

import datetime as _dt
import os
import shutil
import sys
import types
import uuid as _real_uuid

from engine import common

_counter = {"uuid": 0, "clock": 0, "db": 0}


class _FakeUUID:
    """Stands in for the `uuid` module inside redun modules: uuid4() is a counter."""

    def __getattr__(self, name):
        return getattr(_real_uuid, name)

    @staticmethod
    def uuid4():
        _counter["uuid"] += 1
        return _real_uuid.UUID(int=(0xABCD << 96) | _counter["uuid"])


class _LogicalDatetime(_dt.datetime):
    """datetime subclass whose now() is a strictly increasing logical clock (1 ms per reading)."""

    @classmethod
    def now(cls, tz=None):
        _counter["clock"] += 1
        base = _dt.datetime(2030, 1, 1, tzinfo=_dt.timezone.utc) + _dt.timedelta(milliseconds=_counter["clock"])
        if tz is None:
            return base.replace(tzinfo=None)
        return base.astimezone(tz)


_installed = False


def install_determinism():
    """Patch uuid/clock inside redun modules (idempotent; harness process only)."""
    global _installed
    if _installed:
        return
    import redun.backends.db as rdb
    import redun.scheduler as rs
    import redun.utils as ru

    fake = _FakeUUID()
    rs.uuid = fake
    rdb.uuid = fake
    ru.datetime = _LogicalDatetime
    _installed = True


def reset_determinism(salt: int = 0):
    """salt separates id and time ranges of successive processes working on the same database file."""
    _counter["uuid"] = salt * 1_000_000
    _counter["clock"] = salt * 10_000_000


def template_db() -> str:
    """Path of a migrated empty SQLite file; built once per main process, shared by workers."""
    root = common._scratch_root
    os.makedirs(root, exist_ok=True)
    path = os.path.join(root, "template.db")
    if not os.path.exists(path):
        from redun.backends.db import RedunBackendDb

        tmp = path + f".{os.getpid()}.tmp"
        b = RedunBackendDb(db_uri=f"sqlite:///{tmp}")
        b.load()
        b.session.close()
        b.engine.dispose()
        os.replace(tmp, path)
    return path


def fresh_db_path(tag: str = "db") -> str:
    _counter["db"] += 1
    p = os.path.join(common.scratch_dir(), f"{tag}-{_counter['db']}.db")
    shutil.copyfile(template_db(), p)
    return p


def open_backend(path: str, **conf):
    """Open an already-migrated SQLite file without running alembic."""
    from redun.backends.db import RedunBackendDb
    from redun.config import create_config_section

    section = create_config_section({"automigrate": "False", "db_retries_backoff": "0", **{k: str(v) for k, v in conf.items()}})
    b = RedunBackendDb(db_uri=f"sqlite:///{path}", config=section)
    b.load(migrate=False)
    return b


def close_backend(b):
    try:
        if b.session is not None:
            b.session.close()
        if b.engine is not None:
            b.engine.dispose()
    except Exception:
        pass


def remove_db(path: str):
    for suffix in ("", "-journal", "-wal", "-shm"):
        try:
            os.remove(path + suffix)
        except FileNotFoundError:
            pass
