"""C12 — failures propagate (same type and message), the failing job and all its ancestors are recorded as failed,
and a failed call is executed again in a later execution instead of being replayed from the cache."""
from __future__ import annotations

import sqlite3
from collections import Counter

LEVEL = "model_checking"

RAISERS = {"vf.fail", "vf.fail_key", "redun.throw", "vf.reraise", "vf.fail_payload"}
PAYLOADS = ["plain", "lambda", "lock", "generator", "file", "module"]


def job_rows(db, execution_index):
    con = sqlite3.connect(db)
    try:
        execs = [r[0] for r in con.execute("select e.id from execution e join job j on e.job_id=j.id order by j.start_time").fetchall()]
        if execution_index >= len(execs):
            return []
        ex = execs[execution_index]
        rows = con.execute(
            "select j.id, j.parent_id, t.namespace || '.' || t.name, v.type, j.end_time, j.cached, e.job_id "
            "from job j join task t on j.task_hash=t.hash join execution e on e.id=j.execution_id "
            "left join call_node c on j.call_hash=c.call_hash left join value v on c.value_hash=v.value_hash "
            "where j.execution_id=?", (ex,)).fetchall()
        return rows
    finally:
        con.close()


def failed_chain_ok(rows):
    """There is a raiser job recorded as failed whose ancestors up to the execution's root job are all recorded as failed."""
    by_id = {r[0]: r for r in rows}
    if not rows:
        return False, "no job rows"
    root = rows[0][6]
    failed = {r[0] for r in rows if r[3] == "redun.ErrorValue"}
    if root not in failed:
        return False, f"root job not recorded as failed (types: {[(r[2], r[3]) for r in rows]})"
    for r in rows:
        if r[2] in RAISERS and r[0] in failed:
            cur, ok = r, True
            while cur[1] is not None:
                cur = by_id.get(cur[1])
                if cur is None or cur[0] not in failed:
                    ok = False
                    break
            if ok:
                return True, ""
    # errors raised by operators / scheduler tasks (e.g. IndexError from a lazy getitem) have no raiser job: the enclosing job must have failed
    if not any(r[2] in RAISERS for r in rows):
        return True, ""
    return False, f"no failing job with an all-failed ancestor chain: {[(r[2], r[3]) for r in rows]}"


def check_chunk(arg):
    from engine import evloop, progs
    from checks.c01 import sig_of

    chunk, bound = arg
    viol = []
    stats = evloop.ExploreStats()
    n_fail = 0
    reexec = 0
    for ast in chunk:
        expected = progs.ref(ast)

        def scenario(prefix, ast=ast, fresh=False, rootctx=None):
            env = evloop.Env(prefix, context=rootctx)
            try:
                o1 = env.run(progs.build(ast))
                calls1 = Counter(env.ctl.func_calls)
                rows1 = job_rows(env.db_path, 0)
                if fresh:
                    env.reopen_backend()  # the second execution is another process: a new backend object on the same database
                o2 = env.run(progs.build(ast))
                calls2 = Counter(env.ctl.func_calls) - calls1
                rows2 = job_rows(env.db_path, 1)
                return env.ctl, (o1, o2, calls1, calls2, rows1, rows2)
            finally:
                env.close()

        def on_exec(choices, res, ast=ast, expected=expected):
            nonlocal n_fail, reexec
            o1, o2, calls1, calls2, rows1, rows2 = res
            case = {"ast": ast, "choices": choices, "fresh_backend": fresh_, "root_context": rootctx_}
            for i, (o, rows) in enumerate(((o1, rows1), (o2, rows2))):
                out = progs.outcome_of(o)
                if out not in expected:
                    viol.append((sig_of(ast, f"run{i + 1}-wrong-outcome"), case, f"{ast!r} run {i + 1}: {o!r} not in {sorted(expected, key=repr)!r}"))
                    return
                if o[0] == "err":
                    ok, why = failed_chain_ok(rows)
                    if not ok:
                        viol.append((sig_of(ast, f"run{i + 1}-failure-not-recorded"), case, f"{ast!r} run {i + 1} raised {o[1:]} but {why}"))
            if o1[0] == "err":
                n_fail += 1
                # the call that failed in run 1 must be executed again in run 2 (never replayed from the backend cache)
                raisers1 = {t for t in calls1 if t in RAISERS}
                if raisers1 and not any(calls2.get(t, 0) > 0 for t in raisers1):
                    viol.append((sig_of(ast, "failure-replayed-from-cache"), case,
                                 f"{ast!r}: run 1 raised {o1[1:]}; in run 2 none of the failing task functions {sorted(raisers1)} ran again "
                                 f"(functions run in run 2: {dict(calls2)})"))
                elif raisers1:
                    reexec += 1

        # (second execution on a new backend object?, configured root context: with one, every job carries a context hash)
        for fresh_, rootctx_ in ((False, None), (True, None), (False, {"v": "A"})):
            st = evloop.explore(lambda p, f=fresh_, c=rootctx_: scenario(p, fresh=f, rootctx=c), bound, 10**9, on_exec, selfcheck=(ast is chunk[0]))
            stats.merge(st)
    return {"viol": viol[:40], "stats": stats.as_dict(), "states": stats.states, "ntrans": len(stats.transitions), "n_fail": n_fail, "reexec": reexec}


def payload_leg(ctx):
    """Errors whose payload cannot be serialized (in each of the ways pickle refuses) still propagate, are recorded as failed and re-execute."""
    import wf.tasks as T
    from engine import evloop

    n = 0
    for kind in PAYLOADS:
        for depth, root in enumerate((T.fail_payload, T.mid_payload, T.top_payload)):
            env = evloop.Env([])
            case = {"payload": kind, "depth": depth}
            try:
                outs, rows, calls = [], [], []
                for i in range(2):
                    before = Counter(env.ctl.func_calls)
                    outs.append(env.run(root(kind, 7)))
                    rows.append(job_rows(env.db_path, i))
                    calls.append(Counter(env.ctl.func_calls) - before)
            except Exception as e:  # noqa: BLE001
                ctx.violation(f"payload:scheduler-crashes:{kind}", case, f"{case}: {type(e).__name__}: {e}")
                continue
            finally:
                env.close()
            n += 1
            want = ("err", "PayloadError", f"payload:{kind}:7")
            for i in range(2):
                if tuple(outs[i][:3]) != want:
                    ctx.violation(f"payload:wrong-error:{kind}", case, f"{case} run {i + 1}: {outs[i]!r}, expected {want!r}")
                    break
                ok, why = failed_chain_ok(rows[i])
                if not ok:
                    ctx.violation(f"payload:failure-not-recorded:{kind}", case, f"{case} run {i + 1}: {why}")
                    break
            else:
                if not calls[1].get("vf.fail_payload"):
                    ctx.violation(f"payload:failure-replayed-from-cache:{kind}", case, f"{case}: run 2 did not call the failing task again ({dict(calls[1])})")
    return n


def flaky_leg(ctx):
    """Histories of an external resource appearing / disappearing between executions of  main() -> catch(probe(), ValueError, handler):
    a failed call is never answered from the cache, whatever succeeded or was recovered before (explicit-state: the history of the resource
    is the state; reference model below)."""
    import itertools

    from redun import task
    from redun.scheduler import catch

    from engine import evloop

    state = {"present": True}
    calls = []
    n = 0
    for probe_cached in (False, True):
        for handler in ("escalate", "recover"):
            for uncaught in (False, True):
                if uncaught and handler == "recover":
                    continue
                REG = {}

                def probe():
                    calls.append("probe")
                    if not state["present"]:
                        raise ValueError("resource missing")
                    return "ok"

                def escalate(error):
                    calls.append("escalate")
                    raise RuntimeError(f"cannot recover from: {error}")

                def recover(error):
                    calls.append("recover")
                    return "recovered"

                def main(uncaught=uncaught, handler=handler):
                    if uncaught:
                        return [REG["probe"]()]
                    return catch(REG["probe"](), ValueError, REG[handler])

                REG["probe"] = task(name="probe", namespace="c12f", **({} if probe_cached else {"cache": False}))(probe)
                REG["escalate"] = task(name="escalate", namespace="c12f")(escalate)
                REG["recover"] = task(name="recover", namespace="c12f")(recover)
                REG["main"] = task(name="main", namespace="c12f")(main)
                for L in range(1, ctx.pick(4, 5) + 1):
                    for hist in itertools.product((True, False), repeat=L):
                        env = evloop.Env([])
                        case = {"probe_cached": probe_cached, "handler": handler, "uncaught": uncaught, "resource_history": list(hist)}
                        ever_ok = ever_recovered = False
                        try:
                            for i, present in enumerate(hist):
                                state["present"] = present
                                del calls[:]
                                out = env.run(REG["main"]())
                                n += 1
                                made = list(calls)
                                # reference model
                                if probe_cached and ever_ok:
                                    want, want_probe = ("ok", "ok"), False  # a SUCCESSFUL call may be replayed; that is not this property's business
                                elif present:
                                    want, want_probe = ("ok", "ok"), True
                                elif uncaught:
                                    want, want_probe = ("err", "ValueError", "resource missing"), True
                                elif handler == "recover":
                                    want, want_probe = ("ok", "recovered"), True
                                else:
                                    want, want_probe = ("err", "RuntimeError", "cannot recover from: resource missing"), True
                                if uncaught and want[0] == "ok":
                                    want = ("ok", ["ok"])
                                if present or (probe_cached and ever_ok):
                                    ever_ok = True
                                got = tuple(out[:3]) if out[0] == "err" else (out[0], out[1])
                                if handler == "recover" and not uncaught:
                                    # a failure that WAS handled by catch may be cached together with its recovery (documented catch caching):
                                    # once a recovery succeeded, replaying it is outside this property
                                    if ever_recovered and got == ("ok", "recovered"):
                                        continue
                                    if got == ("ok", "recovered"):
                                        ever_recovered = True
                                where = f"execution {i + 1} of resource history {list(hist)} (True=present), probe cached={probe_cached}, handler={handler}, uncaught={uncaught}"
                                if got != want:
                                    kind = "failure-replayed-from-cache" if want_probe and "probe" not in made else "wrong-outcome"
                                    ctx.violation(f"flaky:{kind}:handler={handler}:probe_cached={probe_cached}", case,
                                                  f"{where}: got {got!r} after calls {made}, expected {want!r}")
                                    break
                                if want_probe and "probe" not in made:
                                    ctx.violation(f"flaky:failed-call-not-executed-again:handler={handler}:probe_cached={probe_cached}", case,
                                                  f"{where}: outcome {got!r} is right but probe() was not executed (calls {made})")
                                    break
                        finally:
                            env.close()
    return n


def run(ctx):
    from engine import progs, seams
    from engine.common import check_harness_errors

    seams.template_db()
    allp = progs.programs(4, rich=ctx.pick(False, True))
    failing = [p for p in allp if any(o[0] == "err" for o in progs.ref(p))]
    small = [p for p in failing if progs.size(p) <= 3]
    work = [(failing[i:i + 25], 0) for i in range(0, len(failing), 25)] + [(small[i:i + 6], ctx.pick(1, 2)) for i in range(0, len(small), 6)]
    res = ctx.pmap(check_chunk, ctx.rotate(work), chunksize=1)
    check_harness_errors(res)
    ctx.add_results(res)
    n_payload = payload_leg(ctx)
    n_flaky = flaky_leg(ctx)
    states = set().union(*[r["states"] for r in res])
    execs = sum(r["stats"]["executions"] for r in res)
    return {"coverage": {
        "states": len(states), "transitions": sum(r["ntrans"] for r in res), "traces_validated_against_impl": execs,
        "failing_programs": len(failing), "failing_executions_checked": sum(r["n_fail"] for r in res),
        "re_executions_observed": sum(r["reexec"] for r in res), "payload_runs": n_payload, "flaky_history_runs": n_flaky, "exhaustive": True,
        "rule": f"every generated program of size <= 4 that can fail (error-raising leaves at any depth, inside containers and control "
        "forms, catch with non-matching class, recover that re-raises), executed twice on one database (second execution on the same backend object, on a new one as a second process would, and under a configured non-empty root context) under the default schedule (size <= 3: every "
        "schedule within the deviation bound); oracle: outcome is admissible, root and failing job with its whole ancestor chain are recorded with "
        "an ErrorValue result, and the failing task function runs again in the second execution; plus errors carrying each of 6 payload kinds "
        "(serializable, and unserializable in every way pickle refuses: AttributeError/PicklingError/TypeError) raised at depth 0-2; plus every history of <=4 (thorough 5) executions in which an external resource is present / missing, for "
        "catch(probe(), ValueError, handler) with a handler that recovers or re-raises, probe cached or not, and for an uncaught probe: outcome and "
        "re-execution of the failed call per a reference model",
        "samples": [repr(p) for p in failing[:3]],
    }, "assumptions": ["see C01 for the program family and reference interpreter"]}
