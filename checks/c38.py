"""C38 — evaluating an expression through subrun (new or current execution) equals direct evaluation; sub-jobs are recorded
under the calling job when the execution is extended; the subrun itself is never replayed from a single-reduction entry."""
from __future__ import annotations

import sqlite3
from collections import Counter

LEVEL = "exploration"

COUNT = Counter()


def wrap_subrun_root():
    import redun.scheduler as rs

    t = rs._subrun_root_task
    if not getattr(t.func, "_verif_wrapped", False):
        orig = t.func

        import functools

        @functools.wraps(orig)
        def counted(*a, **k):
            COUNT["subrun_root"] += 1
            return orig(*a, **k)

        counted._verif_wrapped = True
        t.func = counted


def work(arg):
    from redun import Scheduler
    from redun.config import Config
    from redun.scheduler import subrun

    from checks.c01 import sig_of
    from engine import progs, seams

    chunk, new_execution, cache, check_valid = arg
    ne_runs = new_execution if isinstance(new_execution, tuple) else (new_execution, new_execution)  # (first run, second run)
    new_execution = ne_runs[1]
    wrap_subrun_root()
    viol = []
    n = 0
    kinds = Counter()
    for ast in chunk:
        expected = progs.ref(ast)
        db = seams.fresh_db_path("c38")
        cfg = {"backend": {"db_uri": f"sqlite:///{db}", "automigrate": "False"}}
        outs = []
        calls = []
        try:
            for run_i in range(2):
                s = Scheduler(config=Config(config_dict=cfg))
                s.load(migrate=False)
                before = COUNT["subrun_root"]
                # cache options reach subrun either through .options() or as keyword task options of the call itself
                kw_opts = {"kw:full": {"check_valid": "full"}, "kw:scope-none": {"cache_scope": "NONE"}}.get(check_valid, {})
                sr = subrun if check_valid is None or kw_opts else subrun.options(check_valid=check_valid)
                try:
                    v = s.run(sr(progs.build(ast), executor="default", new_execution=ne_runs[run_i], load_modules=["wf.tasks"], **kw_opts), cache=cache)
                    out = ("ok", v)
                except Exception as e:  # noqa: BLE001
                    out = ("err", type(e).__name__, str(e))
                outs.append(out)
                calls.append(COUNT["subrun_root"] - before)
                seams.close_backend(s.backend)
            n += 1
            case = {"ast": ast, "new_execution": list(ne_runs), "cache": cache, "check_valid": check_valid}
            mode = f"new_execution={ne_runs[0] if ne_runs[0] == ne_runs[1] else ne_runs}:cache={cache}:check_valid={check_valid}"
            for i, out in enumerate(outs):
                o = progs.outcome_of(out)
                kinds[o[0]] += 1
                if o not in expected:
                    viol.append((sig_of(ast, f"subrun-differs-from-direct:run{i + 1}:{mode}"), case,
                                 f"subrun({ast!r}) {mode} run {i + 1} gave {out!r}, direct evaluation gives {sorted(expected, key=repr)!r}"))
            if calls[0] != 1:
                viol.append((f"subrun-root-not-run-once:{mode}", case, f"{ast!r} {mode}: first execution ran the sub-scheduler {calls[0]} times"))
            if (check_valid in ("full", "kw:full", "kw:scope-none") or not cache) and calls[1] != 1 and outs[0][0] == "ok":
                viol.append((f"subrun-replayed-without-running:{mode}", case,
                             f"{ast!r} {mode}: second execution did not start the sub-scheduler ({calls[1]} runs) although only CSE/ultimate hits are allowed"))
            if ne_runs[0] != ne_runs[1] and calls[1] != 1 and outs[0][0] == "ok":
                viol.append((f"subrun-served-from-the-other-mode:{mode}", case,
                             f"{ast!r} {mode}: the second execution (new_execution={ne_runs[1]}) did not start the sub-scheduler ({calls[1]} runs): it was answered "
                             f"from the first execution's subrun, which ran with new_execution={ne_runs[0]}"))
            if ne_runs[0] != ne_runs[1] and not ne_runs[1] and outs[0][0] == "ok":
                bad = latest_subrun_has_children(db)
                if bad:
                    viol.append((f"sub-jobs-not-under-calling-job:{mode}", case, f"{ast!r} {mode}: {bad}"))
            if ne_runs == (False, False) and outs[0][0] == "ok":
                bad = job_tree_violation(db)
                if bad:
                    viol.append((f"sub-jobs-not-under-calling-job:{mode}", case, f"{ast!r} {mode}: {bad}"))
        finally:
            seams.remove_db(db)
    best = {}
    for sig, c, d in viol:
        best.setdefault(sig, (c, d))
    return {"viol": [(s, c, d) for s, (c, d) in best.items()], "n": n, "kinds": dict(kinds)}


def latest_subrun_has_children(db):
    con = sqlite3.connect(db)
    try:
        jobs = con.execute("select j.id, j.parent_id, t.name, j.start_time from job j join task t on t.hash=j.task_hash order by j.start_time, j.id").fetchall()
    finally:
        con.close()
    subs = [j for j in jobs if j[2] == "subrun_root_task"]
    if not subs:
        return "no job for the sub-scheduler task is recorded"
    last = subs[-1][0]
    if not any(j[1] == last for j in jobs):
        return "the calling job of the second execution (new_execution=False) has no job of the sub-workflow beneath it"
    return None


def job_tree_violation(db):
    """With new_execution=False every job belongs to one of the two top-level executions and chains up to its root through parent_id;
    the job that runs _subrun_root_task has at least one child job (the sub-workflow's root job)."""
    con = sqlite3.connect(db)
    try:
        jobs = con.execute("select j.id, j.parent_id, j.execution_id, t.name from job j join task t on t.hash=j.task_hash").fetchall()
        execs = dict(con.execute("select id, job_id from execution").fetchall())
    finally:
        con.close()
    if len(execs) != 2:
        return f"{len(execs)} executions recorded, expected the 2 top-level ones"
    by_id = {j[0]: j for j in jobs}
    for jid, pid, ex, name in jobs:
        cur, steps = jid, 0
        while by_id[cur][1] is not None and steps < 50:
            cur = by_id[cur][1]
            steps += 1
            if cur not in by_id:
                return f"job {jid[:8]} ({name}) has a parent that is not recorded"
        if execs.get(ex) != cur:
            return f"job {jid[:8]} ({name}) does not chain up to the root job of its execution"
    sub_roots = [j for j in jobs if j[3] == "subrun_root_task"]
    kids = Counter(j[1] for j in jobs)
    if sub_roots and not any(kids[j[0]] for j in sub_roots):
        return "no job is recorded beneath the job that ran the sub-scheduler"
    return None


def context_leg(ctx):
    """The sub-workflow sees the calling job's context (given to run(), or set by update_context on the calling task), in a new execution as well
    as in the current one: differential against direct evaluation."""
    from redun import Scheduler, task
    from redun.config import Config
    from redun.scheduler import subrun

    import wf.tasks as T
    from engine import seams

    n = 0

    @task(namespace="c38c", name="via_subrun")
    def via_subrun(new_execution):
        return subrun(T.cmid(1), executor="default", new_execution=new_execution, load_modules=["wf.tasks"])

    @task(namespace="c38c", name="direct")
    def direct():
        return T.cmid(1)

    for source in ("none", "run", "update_context", "both"):
        outs = {}
        for how in ("direct", "subrun-current", "subrun-new"):
            db = seams.fresh_db_path("c38c")
            try:
                s = Scheduler(config=Config(config_dict={"backend": {"db_uri": f"sqlite:///{db}", "automigrate": "False"}}))
                s.load(migrate=False)
                t = direct if how == "direct" else via_subrun
                if source in ("update_context", "both"):
                    t = t.update_context(v="J")
                expr = t() if how == "direct" else t(how == "subrun-new")
                kw = {"context": {"v": "R"}} if source in ("run", "both") else {}
                try:
                    outs[how] = ("ok", repr(s.run(expr, **kw)))
                except Exception as e:  # noqa: BLE001
                    outs[how] = ("err", type(e).__name__, str(e))
                seams.close_backend(s.backend)
                n += 1
            finally:
                seams.remove_db(db)
        want = {"none": "(1, 'none')", "run": "(1, 'R')", "update_context": "(1, 'J')", "both": "(1, 'J')"}[source]
        for how, o in outs.items():
            if o != ("ok", want):
                ctx.violation(f"context:{how}-differs:context-from={source}", {"context_source": source, "how": how},
                              f"cmid(1) reads context key v; context from {source}: {how} gives {o}, expected {want} (all: {outs})")
    return n


def run(ctx):
    import wf.tasks  # noqa: F401

    from engine import progs, seams
    from engine.common import check_harness_errors

    seams.template_db()
    fam = progs.programs(ctx.pick(2, 3), rich=False)
    extra = [("call", "add", (("call", "inc", (("c", 1),)), ("call", "fail", (("c", 0),)))), ("seq", (("call", "inc", (("c", 0),)), ("call", "twice", (("c", 1),)))),
             ("catch", ("call", "fail", (("c", 1),)), "ValueError", "recover"), ("list", (("call", "fan", (("c", 0),)), ("call", "mklist", (("c", 1),))))]
    fam = fam + extra
    configs = [(False, True, None), (True, True, None), (False, False, None), (False, True, "full"), (False, True, "kw:full"), (False, True, "kw:scope-none"), ((True, False), True, None), ((False, True), True, None)]
    if not ctx.quick:
        configs += [(True, False, None), (True, True, "full")]
    work_items = [(fam[i:i + 6], ne, c, cv) for (ne, c, cv) in configs for i in range(0, len(fam), 6)]
    res = ctx.pmap_nondaemonic(work, ctx.rotate(work_items))
    check_harness_errors(res)
    ctx.add_results(res)
    n_ctx = context_leg(ctx)
    kinds = Counter()
    for r in res:
        kinds.update(r["kinds"])
    return {"coverage": {
        "context_runs": n_ctx, "evaluations": 2 * sum(r["n"] for r in res) + n_ctx, "distinct_nontrivial": len(fam) * len(configs), "outcome_kinds": dict(kinds), "exhaustive": True,
        "rule": f"every generated program of size <= {ctx.pick(2, 3)} plus 4 larger shapes, wrapped as subrun(e, executor='default') and run twice on one "
        "SQLite repository with real thread executors, for (new_execution, cache, check_valid) in " + repr(configs) + "; oracle: both runs give the "
        "reference interpreter's outcome; the sub-scheduler runs exactly once in run 1, and again in run 2 whenever only CSE/ultimate hits could "
        "not apply (check_valid=full or cache off); with new_execution=False only the two top-level executions exist and every job chains "
        "to its execution's root, with jobs beneath the job that ran the sub-scheduler",
        "samples": [repr(p) for p in fam[5:7]],
    }, "assumptions": ["the sub-scheduler needs its own thread, so completion order is NOT controlled here: programs and configurations are "
                       "enumerated exhaustively, timing is whatever the thread pools produce"]}
