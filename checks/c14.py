"""C14 — bencode is injective modulo (str ~ utf-8 bytes, list ~ tuple), key-order independent,
round-trips through bdecode, and rejects bool/None/float.

Exhaustive enumeration of all structures up to a nesting bound over a small leaf alphabet;
the oracle is all-pairs (implemented by grouping both ways, which is equivalent to comparing
every pair).
"""
from __future__ import annotations

import itertools

LEVEL = "exploration"

INTS = [-1, 0, 1, 10]
STRS = ["", "a", "1", "i1e", "é", "1:a", "le", "0:"]
BYTS = [b"", b"a", b"\xff", "é".encode(), b"1:a"]
KEYS = ["", "a", "b", "é", "1:a"]
BAD = [True, False, None, 1.5]


def canon(x):
    if isinstance(x, bool) or x is None or isinstance(x, float):
        raise TypeError("not encodable")
    if isinstance(x, int):
        return ("i", x)
    if isinstance(x, str):
        return ("s", x.encode())
    if isinstance(x, bytes):
        return ("s", x)
    if isinstance(x, (list, tuple)):
        return ("l", tuple(canon(i) for i in x))
    if isinstance(x, dict):
        return ("d", tuple(sorted((k.encode(), canon(v)) for k, v in x.items())))
    raise TypeError("not encodable")


def gen_level(children: list, max_len: int, keys: list, max_keys: int):
    """All lists/tuples of length <= max_len and all dicts (every insertion order) of <= max_keys keys."""
    out = []
    for n in range(0, max_len + 1):
        for combo in itertools.product(children, repeat=n):
            out.append(list(combo))
            if n:  # () and [] are both emitted once below
                out.append(tuple(combo))
    out.append(())
    for n in range(0, max_keys + 1):
        for ks in itertools.permutations(keys, n):  # permutations = every insertion order
            for vs in itertools.product(children, repeat=n):
                out.append(dict(zip(ks, vs)))
    return out


def enumerate_structs(tier: str):
    leaves = INTS + STRS + BYTS
    if tier == "quick":
        d1 = gen_level(leaves, 2, KEYS[:3], 2)
        small = [0, 1, "a", "1", b"a", "", "i1e", [], {}, [0], [1, "a"], ("a",), {"a": 0}, {"a": 0, "b": 1},
                 {"b": 1, "a": 0}, ["i1e"], [[]], {"": []}]
        d2 = gen_level(small, 3, KEYS[:3], 2)
    else:
        d1 = gen_level(leaves, 2, KEYS, 2)
        mid = [x for x in d1 if len(x) <= 1] + leaves
        d2 = gen_level(mid, 2, KEYS[:3], 2)
        small = [0, 1, "a", b"a", "", [], {}, [0], [[]], {"a": []}, [0, 1], {"a": {"b": 0}}, [[0], "a"]]
        d2 += gen_level(small, 4, KEYS[:2], 2)
    return leaves + d1 + d2


def run(ctx):
    from redun.bcoding import bdecode, bencode

    structs = ctx.rotate(enumerate_structs(ctx.tier))
    by_enc: dict[bytes, tuple] = {}
    by_can: dict[tuple, bytes] = {}
    n = 0
    for x in structs:
        n += 1
        try:
            e = bencode(x)
        except Exception as exc:  # encodable structure rejected
            ctx.violation("encode-raises:" + type(exc).__name__, x, f"bencode({x!r}) raised {exc!r}")
            continue
        c = canon(x)
        if e in by_enc and by_enc[e][0] != c:
            ctx.violation("collision", {"pair": [x, by_enc[e][1]]}, f"bencode({x!r}) == bencode({by_enc[e][1]!r}) == {e!r}")
        by_enc.setdefault(e, (c, x))
        if c in by_can and by_can[c] != e:
            ctx.violation("not-canonical", x, f"equal structures encode differently: {x!r}: {e!r} vs {by_can[c]!r}")
        by_can.setdefault(c, e)
        try:
            d = bdecode(e)
            if canon(d) != c:
                ctx.violation("roundtrip", x, f"bdecode(bencode({x!r})) = {d!r}")
        except Exception as exc:
            ctx.violation("decode-raises:" + type(exc).__name__, x, f"bdecode({e!r}) raised {exc!r}")
    # rejection of non-encodables: top level and in every container position
    rej = 0
    for b in BAD:
        for wrap in (lambda v: v, lambda v: [v], lambda v: (0, v), lambda v: {"a": v}, lambda v: [[v]],
                     lambda v: {"a": [v]}, lambda v: [{"k": v}]):
            x = wrap(b)
            rej += 1
            try:
                e = bencode(x)
                ctx.violation("accepts-nonencodable:" + type(b).__name__, x, f"bencode({x!r}) = {e!r}, expected TypeError")
            except TypeError:
                pass
    # hash_struct goes through the same encoding
    from redun.hashing import hash_struct

    hs = {}
    for x in structs[:3000]:
        try:
            h = hash_struct(x)
        except Exception:
            continue
        c = canon(x)
        if h in hs and hs[h] != c:
            ctx.violation("hash_struct-collision", x, f"hash_struct collision on {x!r}")
        hs.setdefault(h, c)
    return {
        "coverage": {
            "evaluations": n + rej,
            "distinct_nontrivial": len(by_can),
            "rule": "every structure up to nesting depth 2 (lists/tuples up to length 2-4, dicts up to 2 keys in "
            "every insertion order) over ints, str, bytes leaves that probe the encoding syntax ('i1e','1:a','le',"
            "'0:', utf-8 twins); distinct = distinct canonical forms (str~utf8 bytes, list~tuple, dict order-free); "
            "oracle: encodings equal <=> canonical forms equal over all pairs, bdecode round trip, bool/None/float rejected",
            "distinct_encodings": len(by_enc),
            "rejections_checked": rej,
            "exhaustive": True,
            "samples": [repr(structs[i]) for i in (0, len(structs) // 3, len(structs) // 2, len(structs) - 1)],
        },
        "assumptions": ["dict keys are str only (mixed str/bytes keys cannot be sorted and are outside the statement)"],
    }


def replay(ctx, case):
    from engine.common import unjson
    from redun.bcoding import bdecode, bencode

    out = []
    case = unjson(case)
    items = case["pair"] if isinstance(case, dict) and set(case) == {"pair"} else [case]
    try:
        encs = [bencode(i) for i in items]
        if len(items) == 2 and encs[0] == encs[1] and canon(items[0]) != canon(items[1]):
            out.append(("collision", f"{items!r} -> {encs[0]!r}"))
        for i, e in zip(items, encs):
            if canon(bdecode(e)) != canon(i):
                out.append(("roundtrip", repr(i)))
    except Exception as exc:
        out.append(("encode-raises:" + type(exc).__name__, repr(exc)))
    return out
