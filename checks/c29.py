"""C29 — script tasks run exactly the given (dedented) command; the heredoc wrapper is byte-exact; script() stages inputs
before and outputs after the command and returns a value shaped like its outputs."""
from __future__ import annotations

import itertools
import os
import shutil
import subprocess
from textwrap import dedent

LEVEL = "exploration"

LINES = ["EOF", "EOF1", "EOF2", 'echo "$HOME" \'q\'', "  indented", "", "$(date)", "back\\slash \\n", "`tick`", "EOF ", " EOF", "'\"EOF\"'"]
FIRST = ["#!/bin/cat", 'cat "$0"; exit 0']


def ref_prepare(text):
    from redun.scripting import DEFAULT_SHELL

    c = dedent(text).strip()
    if not c.startswith("#!"):
        c = DEFAULT_SHELL.rstrip("\n") + "\n" + c
    return c


def work(chunk):
    from redun.scripting import get_command_eof, get_wrapped_command, prepare_command

    viol = []
    n = 0
    outs = set()
    for first, rest, indent in chunk:
        lines = [first] + list(rest)
        text = "\n".join((" " * indent + ln if ln else ln) for ln in lines)
        if indent:
            text = "\n" + text + "\n" + " " * indent
        case = {"text": text}
        kinds = "+".join(sorted({("EOFn" if ln.strip("'\" ").startswith("EOF") else "other") for ln in rest}) or ["-"])
        n += 1
        try:
            prepared = prepare_command(text)
        except Exception as e:  # noqa: BLE001
            viol.append((f"prepare-raises:{type(e).__name__}", case, f"{text!r}: {e!r}"))
            continue
        want = ref_prepare(text)
        if prepared != want:
            viol.append((f"prepare-differs:shebang={first.startswith('#!')}:indent={indent}", case, f"prepare_command({text!r}) = {prepared!r}, expected {want!r}"))
            continue
        eof = get_command_eof(prepared)
        if eof in prepared.split("\n"):
            viol.append((f"terminator-equals-a-line:{kinds}", case, f"terminator {eof!r} is a line of {prepared!r}"))
        wrapped = get_wrapped_command(prepared)
        p = subprocess.run(["bash", "-c", wrapped], capture_output=True)
        got = p.stdout.decode("utf8", "replace")
        outs.add(got)
        if got != want + "\n":
            viol.append((f"wrapper-not-byte-exact:{kinds}:shebang={first.startswith('#!')}", case,
                         f"script file written by the wrapper differs from the command:\n got  {got!r}\n want {want + chr(10)!r}\n stderr {p.stderr[-200:]!r}"))
    return {"viol": viol[:50], "n": n, "outs": len(outs)}


def staging_leg(ctx):
    """script() through the real scheduler: inputs staged before, outputs unstaged after, result shaped like outputs."""
    from redun import File
    from redun.scripting import script

    from engine import common, evloop

    import tempfile

    root = os.path.join(common.scratch_dir(), "c29-stage")
    tmp_root = os.path.join(common.scratch_dir(), "c29-tmp")
    os.makedirs(tmp_root, exist_ok=True)
    saved_tmp = tempfile.tempdir
    tempfile.tempdir = tmp_root  # script(tempdir=True) scratch directories go here, not under /tmp
    n = 0
    shapes = ["single-staging", "list", "dict", "nested", "self-staged", "stdout", "mixed-const", "same-local"]
    for layout in ("separate-dirs", "tempdir-same-names"):
        for shape in shapes:
            for n_inputs in (0, 1, 2):
                shutil.rmtree(root, ignore_errors=True)
                os.makedirs(os.path.join(root, "remote"))
                os.makedirs(os.path.join(root, "local"))
                R = lambda name: os.path.join(root, "remote", name)  # noqa: E731
                # "tempdir-same-names": script(tempdir=True) is called from the directory holding the remote files and the local (staged) names
                # are the same names, relative - they live in the fresh scratch directory the command cd's into
                L = (lambda name: os.path.join(root, "local", name)) if layout == "separate-dirs" else (lambda name: name)  # noqa: E731
                inputs = []
                checks = []
                for i in range(n_inputs):
                    File(R(f"in{i}")).write(f"input-{i}")
                    inputs.append(File(R(f"in{i}")).stage(L(f"in{i}")))
                    checks.append(f'test "$(cat {L(f"in{i}")})" = "input-{i}" || exit 41')
                o1, o2 = File(R("out1")).stage(L("out1")), File(R("out2")).stage(L("out2"))
                cmd_out = f'echo -n result1 > {L("out1")}; echo -n result2 > {L("out2")}; echo -n result3 > {R("self")}; echo -n STDOUT'
                o3 = File(R("out3")).stage(L("out1"))  # a second remote destination for the SAME local file
                outputs = {"same-local": [o1, o3], "single-staging": o1, "list": [o1, o2], "dict": {"a": o1, "b": o2}, "nested": {"k": [o1, {"z": o2}]},
                           "self-staged": File(R("self")), "stdout": File("-"), "mixed-const": [o1, 5, "s", File("-")]}[shape]
                command = "\n".join(checks + [cmd_out])
                case = {"outputs": shape, "inputs": n_inputs, "layout": layout}
                env = evloop.Env([])
                cwd = os.getcwd()
                try:
                    if layout != "separate-dirs":
                        os.chdir(os.path.join(root, "remote"))
                    out = env.run(script(command, inputs=inputs if n_inputs != 1 else inputs[0], outputs=outputs, tempdir=(layout != "separate-dirs")))
                finally:
                    os.chdir(cwd)
                    env.close()
                n += 1
                if out[0] != "ok":
                    ctx.violation(f"script-fails:{shape}:inputs={n_inputs}:{layout}", case, f"{case}: {out!r}")
                    continue
                res = out[1]

                def expect(o):
                    from redun.file import Staging

                    if isinstance(o, Staging):
                        return ("file", o.remote.path)
                    if isinstance(o, File):
                        return ("stdout",) if o.path == "-" else ("file", o.path)
                    if isinstance(o, list):
                        return [expect(x) for x in o]
                    if isinstance(o, dict):
                        return {k: expect(v) for k, v in o.items()}
                    return ("const", o)

                def describe(v):
                    if isinstance(v, File):
                        return ("file", v.path)
                    if isinstance(v, bytes):
                        return ("stdout",) if v == b"STDOUT" else ("bytes", v)
                    if isinstance(v, list):
                        return [describe(x) for x in v]
                    if isinstance(v, dict):
                        return {k: describe(x) for k, x in v.items()}
                    return ("const", v)

                if describe(res) != expect(outputs):
                    ctx.violation(f"result-shape:{shape}:{layout}", case, f"{case}: result {describe(res)!r}, expected {expect(outputs)!r}")
                for name, content in (("out1", "result1"), ("out2", "result2")):
                    used = shape in ("list", "dict", "nested") or (name == "out1" and shape in ("single-staging", "mixed-const"))
                    if used and (not os.path.exists(R(name)) or open(R(name)).read() != content):
                        ctx.violation(f"output-not-unstaged:{shape}:{layout}", case, f"{case}: remote {name} missing or wrong after the script")
                if shape == "same-local":
                    for name in ("out1", "out3"):
                        if not os.path.exists(R(name)) or open(R(name)).read() != "result1":
                            ctx.violation(f"output-not-unstaged:{shape}:{layout}", case, f"{case}: remote {name} missing or wrong after the script "
                                          "(one local file staged to two remote destinations)")
    tempfile.tempdir = saved_tmp
    shutil.rmtree(tmp_root, ignore_errors=True)
    shutil.rmtree(root, ignore_errors=True)
    return n


def run(ctx):
    from engine import seams
    from engine.common import check_harness_errors

    n = ctx.pick(2, 3)
    lines = LINES[: ctx.pick(8, len(LINES))]
    items = []
    for first in FIRST:
        for k in range(0, n + 1):
            for rest in itertools.product(lines, repeat=k):
                for indent in (0, 4):
                    items.append((first, rest, indent))
    # first lines that merely CONTAIN "#!" (no shebang): the default shell header is still required
    for first in ('cat "$0"; exit 0 #!/bin/sh', "cat \"$0\"; exit 0; echo '#!/bin/sh' > /dev/null"):
        for k in range(0, 2):
            for rest in itertools.product(lines, repeat=k):
                for indent in (0, 4):
                    items.append((first, rest, indent))
    items = ctx.rotate(items)
    chunks = [items[i:i + 40] for i in range(0, len(items), 40)]
    res = ctx.pmap(work, chunks, chunksize=1)
    check_harness_errors(res)
    ctx.add_results(res)
    seams.template_db()
    n2 = staging_leg(ctx)
    return {"coverage": {
        "evaluations": sum(r["n"] for r in res) + n2, "distinct_nontrivial": sum(r["outs"] for r in res), "staging_runs": n2, "exhaustive": True,
        "rule": f"every command text made of a self-printing first line (shebang '#!/bin/cat', or 'cat \"$0\"; exit 0' under the default shell, also with '#!' later on that line) "
        f"followed by every sequence of <= {n} lines from {len(lines)} lines chosen against the heredoc (EOF, EOF1, EOF2, quotes, $(), backticks, "
        "backslashes, trailing/leading spaces, empty), plain and indented; the wrapper is executed by real bash and its stdout (= the script file) "
        "must equal the reference-prepared command byte for byte; terminator never equals a line; default shell header iff no shebang. Plus "
        "script() through the scheduler for 8 output shapes (incl. one local file unstaged to two remote destinations) x 0-2 staged inputs x 2 layouts (local copies in another directory; tempdir=True with the same relative names)",
        "samples": [repr(i) for i in items[:2]],
    }, "assumptions": ["bash and cat are the system's; local filesystem staging only"]}
