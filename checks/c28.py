"""C28 — dry runs execute nothing and predict the real run (differential: dry run vs real run on copies of the same backend state)."""
from __future__ import annotations

import os

LEVEL = "model_checking"


def explore(arg):
    import wf.editable as E
    from checks import c02
    from engine import common, crash, evloop, seams

    prog, first, depth = arg
    fpath = os.path.join(common.scratch_dir(), f"c28-input-{os.getpid()}.txt")
    acts = c02.actions(prog)
    P = c02.PROGRAMS[prog]
    viol = []
    stats = {"pairs": 0, "dry_completed": 0, "dry_stopped": 0, "states": set()}

    def prepare(cfg):
        E.define_all(cfg["bodies"], P.get("opts"), cfg["versions"])
        if P.get("file"):
            c02.write_file(fpath, cfg["file"])
            return fpath
        return cfg["arg"]

    def compare(db, cfg, hist):
        for drop in [None] + ([P["drop_executor"]] if P.get("drop_executor") else []):
            compare1(db, cfg, hist, drop)

    def compare1(db, cfg, hist, drop):
        # drop: name of an executor the comparing scheduler does not have (the history itself ran with it)
        def lacking(env):
            if drop:
                env.hooks.append(lambda env_, s: s.executors.pop(drop, None))
            return env

        # dry run on copy A
        a = crash.copy_db(db, "c28a")
        arg_ = prepare(cfg)
        env = lacking(evloop.Env([], db_path=a, id_salt=50))
        try:
            dry = env.run(E.T(P["root"])(arg_), dryrun=True)
            dry_submits = len(env.ctl.submits)
            dry_calls = dict(E.CALLS)
        finally:
            env.close()
            seams.remove_db(a)
        # real run on copy B
        b = crash.copy_db(db, "c28b")
        arg_ = prepare(cfg)
        env = lacking(evloop.Env([], db_path=b, id_salt=51))
        try:
            real = env.run(E.T(P["root"])(arg_))
            real_submits = len(env.ctl.submits)
        finally:
            env.close()
            seams.remove_db(b)
        # ONE scheduler object: dry run, real run, dry run again; the last verdict must be that of a fresh scheduler on the same backend state
        same = fresh = None
        if drop is None:
            c = crash.copy_db(db, "c28c")
            arg_ = prepare(cfg)
            env = evloop.Env([], db_path=c, id_salt=52)
            try:
                env.run(E.T(P["root"])(arg_), dryrun=True)
                env.run(E.T(P["root"])(arg_), reuse_scheduler=True)
                same = env.run(E.T(P["root"])(arg_), reuse_scheduler=True, dryrun=True)
            finally:
                env.close()
            arg_ = prepare(cfg)
            env = evloop.Env([], db_path=c, id_salt=53)
            try:
                fresh = env.run(E.T(P["root"])(arg_), dryrun=True)
            finally:
                env.close()
                seams.remove_db(c)
        stats["pairs"] += 1
        stats["states"].add((c02.cfg_key(cfg), tuple(hist)))
        case = {"program": prog, "history": [list(h) for h in hist], "without_executor": drop}
        if same is not None and (same[0], repr(same[1:])) != (fresh[0], repr(fresh[1:])):
            viol.append((f"{prog}:dryrun-verdict-depends-on-scheduler-history:last={(hist[-1][0] if hist else 'init')}", case,
                         f"{prog} {hist}: after dry run + real run on one Scheduler object a second dry run gave {same!r}; a fresh scheduler on the same "
                         f"backend gives {fresh!r}"))
        last = (hist[-1][0] if hist else "init") + (f":without-{drop}" if drop else "")
        if dry_submits or dry_calls:
            viol.append((f"{prog}:dryrun-executes:last={last}", case, f"{prog} {hist}: dry run submitted {dry_submits} jobs, ran functions {dry_calls}"))
        if dry[0] == "dryrun-stop":
            stats["dry_stopped"] += 1
            if real_submits == 0:
                viol.append((f"{prog}:dryrun-stops-but-real-run-executes-nothing:last={last}", case,
                             f"{prog} {hist}: dry run stopped early but the real run on the same backend submitted no job (result {real})"))
        else:
            stats["dry_completed"] += 1
            if (dry[0], repr(dry[1:])) != (real[0], repr(real[1:])):
                viol.append((f"{prog}:dryrun-result-differs:last={last}", case, f"{prog} {hist}: dry run returned {dry!r}, real run returned {real!r}"))

    def step(db, cfg, hist, d):
        compare(db, cfg, hist)
        if d >= depth:
            return
        # make the configuration real on this backend, then continue with every next action
        db2 = crash.copy_db(db, "c28s")
        c02.run_cfg(prog, cfg, db2, fpath, d + 1)
        for a in acts:
            step(db2, c02.apply(cfg, a), hist + (a,), d + 1)
        seams.remove_db(db2)

    base = seams.fresh_db_path("c28base")
    cfg0 = c02.initial(prog)
    if first is None:
        compare(base, cfg0, ())  # empty backend
    else:
        c02.run_cfg(prog, cfg0, base, fpath, 0)
        step(base, c02.apply(cfg0, first), (first,), 1)
    seams.remove_db(base)
    best = {}
    for sig, case, d in viol:
        if sig not in best or len(case["history"]) < len(best[sig][0]["history"]):
            best[sig] = (case, d)
    stats["nstates"] = len(stats.pop("states"))
    return {"viol": [(s, c, d) for s, (c, d) in best.items()], "stats": stats}


def run(ctx):
    from checks import c02
    from engine import seams
    from engine.common import check_harness_errors

    seams.template_db()
    progs_ = ctx.pick(["chain", "catch", "file", "script", "badexec", "handle"], list(c02.PROGRAMS))
    depth = ctx.pick(2, 3)
    work = [(p, None, depth) for p in progs_] + [(p, a, depth) for p in progs_ for a in c02.actions(p)]
    res = ctx.pmap(explore, ctx.rotate(work), chunksize=1)
    check_harness_errors(res)
    best = {}
    for r in res:
        for sig, case, d in r["viol"]:
            if sig not in best or len(case["history"]) < len(best[sig][0]["history"]):
                best[sig] = (case, d)
    for sig, (case, d) in best.items():
        ctx.violation(sig, case, d)
    pairs = sum(r["stats"]["pairs"] for r in res)
    return {"coverage": {
        "states": sum(r["stats"]["nstates"] for r in res), "transitions": pairs, "traces_validated_against_impl": 2 * pairs,
        "dry_runs_completed": sum(r["stats"]["dry_completed"] for r in res), "dry_runs_stopped_early": sum(r["stats"]["dry_stopped"] for r in res),
        "exhaustive": True,
        "rule": f"backend states reached by every history of <= {depth} (edit / revert / version / argument / file) actions with real runs in between "
        "(so: empty, fully cached, partially cached, stale after edits); in each state the next configuration is run as a dry run and as a real "
        "run on two copies of the database; oracle: the dry run submits nothing and calls no task function; if it completes its value equals "
        "the real run's; if it stops early the real run submits at least one job; on a third copy one Scheduler object does dry run, real run, dry run, "
        "and the last verdict equals that of a fresh scheduler on the same database",
        "samples": [{"program": w[0], "first": list(w[1]) if w[1] else None} for w in work[:3]],
    }, "assumptions": ["default completion schedule for the real runs"]}
