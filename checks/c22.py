"""C22 — interrupted or retried recording never corrupts later runs (crash at every commit, fault at every statement)."""
LEVEL = "fault_enumeration"


def run(ctx):
    from checks import crash_common

    wl = ctx.pick(["chain", "fan-dup", "caught-failure"], ["chain", "fan-dup", "caught-failure", "value-store", "chain-shallow"])
    cov = crash_common.run_property(ctx, "C22", wl)
    cov["rule"] = ("per workload: crash before EVERY commit point of a clean run (DB state only changes at commits, so this covers every "
                   "crash instant) and one injected sqlite3.OperationalError at EVERY statement (thorough: also every pair p,p+1 / p,p+2); "
                   "then referential-consistency queries on the file and recovery runs (same program, each task edited) compared with the same "
                   "variant on an empty backend; after re-running the same program all rows of a clean run must be present exactly once. "
                   "non-trivial = an injection that actually fired")
    return {"coverage": cov, "assumptions": ["SQLite commits are atomic (torn pages out of scope)",
                                             "default completion schedule; ids and clock are counters"]}
