"""Shared scheduler exploration for C06/C07/C08/C09: sharp drivers × limits configs × all completion schedules.

One worker call explores one case = (driver, limits, runs) under the controlled event loop and evaluates the
per-execution oracles of all four properties (each violation is tagged with its property); the per-property
checks keep only their own tag.  C07's oracle compares across executions and cases and is finished in the parent.
"""
from __future__ import annotations

import hashlib
from collections import Counter, defaultdict

from engine import evloop


# --------------------------------------------------------------------------------------------------
# drivers: name -> (builder, expected outcome, [limits configs])
def _drivers():
    from redun.functools import seq
    from redun.scheduler import catch, catch_all

    import wf.tasks as T

    def handle_pair():
        h = T.H("conn")
        return [T.ruse(h, 1), T.ruse(h, 2)]

    def handle_late():
        h = T.H("conn")
        return [T.ruse(h, T.ident(1)), T.ruse(h, T.ident(2))]

    def handle_chain():
        h = T.H("conn")
        return [T.ruse(T.ruse(h, 1), 2), T.ruse(h, 3)]

    def handle_chain_late():
        # a two-step pipeline on the handle next to a second consumer of the ORIGINAL state that becomes ready late:
        # fork numbers are per handle state, so the late consumer must not compete with the pipeline's second step
        h = T.H("conn")
        return [T.ruse(T.ruse(h, 1), 2), T.ruse(h, T.ident(3))]

    D = {
        "fan3": (lambda: [T.rleaf(1), T.rleaf(2), T.rleaf(3)], ("ok", [101, 102, 103]), [{"r": 1}, {"r": 2}, {"r": 3}]),
        "dup-late": (lambda: [T.rleaf(1), T.rleaf(T.ident(1)), T.rleaf(2)], ("ok", [101, 101, 102]), [{"r": 1}, {"r": 2}, {"r": 3}]),
        "dup-nolimit": (lambda: [T.leaf(1), T.leaf(T.ident(1)), T.leaf(T.ident(T.ident(1)))], ("ok", [101, 101, 101]), [{}]),
        "nested": (lambda: [T.rmid(1), T.rleaf(2)], ("ok", [101, 102]), [{"r": 1}, {"r": 2}]),
        "nested-dup": (lambda: [T.rmid(1), T.rleaf(1)], ("ok", [101, 101]), [{"r": 1}, {"r": 2}]),
        "child-fails-after-parent-done": (
            lambda: seq([catch(T.rmid_fail(1), ValueError, T.recover), [T.rleaf(2), T.rleaf(3)]]),
            ("ok", [-1, [102, 103]]), [{"r": 1}, {"r": 2}]),
        "unknown-executor": (lambda: seq([catch(T.rnoexec(1), Exception, T.recover), [T.rleaf(2), T.rleaf(3)]]),
                             ("ok", [-1, [102, 103]]), [{"r": 1}, {"r": 2}]),
        "async-on-sync-executor": (lambda: seq([catch(T.rasync(1), Exception, T.recover), [T.rleaf(2), T.rleaf(3)]]),
                                   ("ok", [-1, [102, 103]]), [{"r": 1}, {"r": 2}]),
        "dict-limits": (lambda: [T.r2leaf(1), T.r2leaf(2), T.rleaf(3)], ("ok", [201, 202, 103]), [{"r": 2}, {"r": 3}, {"r": 4}]),
        "disjoint": (lambda: [T.aleaf(1), T.bleaf(2), T.ableaf(3)], ("ok", [2, 4, 6]), [{"a": 1, "b": 1}, {"a": 2, "b": 1}]),
        "unconfigured": (lambda: [T.uleaf(4), T.uleaf(5), T.rleaf(1)], ("ok", [8, 9, 101]), [{}, {"r": 2}]),
        "caught-failures": (lambda: catch_all([T.rfail(1), T.rleaf(2), T.rleaf(T.ident(2))], ValueError, T.recover_all),
                            ("ok", ["E", 102, 102]), [{"r": 1}, {"r": 2}]),
        "failing-twin": (lambda: catch_all([T.rfail(1), T.rfail(T.ident(1))], ValueError, T.recover_all),
                         ("ok", ["E", "E"]), [{"r": 1}, {"r": 2}]),
        "uncaught-failure": (lambda: [T.rfail(1), T.rleaf(2)], ("err", {("ValueError", "boom:1")}), [{"r": 1}, {"r": 2}]),
        "fail-then-more": (lambda: seq([catch(T.rfail(1), ValueError, T.recover), [T.rleaf(2), T.rleaf(3)]]),
                           ("ok", [-1, [102, 103]]), [{"r": 1}, {"r": 2}]),
        "handles": (handle_pair, ("ok", None), [{"r": 1}, {"r": 2}]),
        "handle-chain": (handle_chain, ("ok", None), [{"r": 1}, {"r": 3}]),
        "handle-chain-late": (handle_chain_late, ("ok", None), [{"r": 1}, {"r": 3}]),
        "handles-late-args": (handle_late, ("ok", None), [{"r": 1}, {"r": 2}]),
        "shared-object": (lambda: T.ident([T.mklist(1), T.mklist(T.ident(1))]), ("ok", [[1, 2], [1, 2]]), [{}]),
        "dup-both-wait": (lambda: [T.rleaf(9), T.rleaf(1), T.rleaf(T.ident(1))], ("ok", [109, 101, 101]), [{"r": 1}, {"r": 2}]),
        "dup-parent-late": (lambda: [T.mid(1), T.mid(T.ident(1))], ("ok", [101, 101]), [{}]),
        "dup-rparent-late": (lambda: [T.rmid(1), T.rmid(T.ident(1))], ("ok", [101, 101]), [{"r": 1}, {"r": 2}]),
        "spawn-races-renominated": (lambda: [T.rleaf(1), T.rleaf(2), T.spawn_r(3)], ("ok", [101, 102, 103]), [{"r": 1}, {"r": 2}]),
        # a job waits behind two duplicates: the second duplicate is served by CSE/cache when re-nominated and consumes nothing
        "waiter-behind-duplicates": (lambda: [T.rleaf(9), T.rleaf(1), T.rleaf(T.ident(1)), T.rleaf(T.ident(2))],
                                     ("ok", [109, 101, 101, 102]), [{"r": 1}]),
        # duplicates that both waited for limits and whose child needs everything: a reservation kept by the collapsed twin would deadlock
        "dup-wait-then-big-child": (lambda: [T.r2leaf(9), T.rdup_big(1), T.rdup_big(T.ident(1))], ("ok", [209, 501, 501]), [{"r": 2}]),
        # a limited job fails while another waits for the limit; the failure is caught and nothing else completes afterwards
        "fail-releases-to-waiter": (lambda: seq([catch_all([T.rfail(1), T.rleaf(2)], ValueError, T.recover_all)]), ("ok", [["E", 102]]), [{"r": 1}]),
        # the re-nominated duplicate is answered by a cached ERROR (tolerated by catch_all): it consumes nothing, a waiter is queued behind it
        "waiter-behind-failing-duplicates": (lambda: catch_all([T.rleaf(9), T.rfail(1), T.rfail(T.ident(1)), T.rleaf(T.ident(2))], ValueError, T.recover_all),
                                             ("ok", [109, "E", "E", 102]), [{"r": 1}]),
        "cse-none": (lambda: [T.nocache(1), T.nocache(T.ident(1))], ("ok", [1, 1]), [{}]),
    }
    return D


TWO_RUN = ["dup-late", "nested", "child-fails-after-parent-done", "caught-failures", "fail-releases-to-waiter"]
# drivers that are also explored with Scheduler.run(cache=False) (cache scope downgraded to CSE: no backend single-reduction hits)
NO_CACHE = ["dup-late", "dup-nolimit", "dup-both-wait", "dup-parent-late", "dup-rparent-late", "nested-dup", "failing-twin"]


def cases(tier: str):
    out = []
    D = _drivers()
    for name, (_, _, limit_cfgs) in D.items():
        for lim in limit_cfgs:
            out.append({"driver": name, "limits": lim, "runs": 1})
    if tier == "quick":
        for c in out:
            if c["driver"] in ("waiter-behind-duplicates", "waiter-behind-failing-duplicates"):
                c["only_bound"] = 2  # the complete tree of this 6-job driver is explored in the thorough tier
    for name in NO_CACHE:
        for lim in D[name][2][: (1 if tier == "quick" else 3)]:
            out.append({"driver": name, "limits": lim, "runs": 1, "cache": False})
    for name in TWO_RUN:
        lim = D[name][2][0]
        out.append({"driver": name, "limits": lim, "runs": 2})
        if tier == "thorough":
            for lim in D[name][2][1:]:
                out.append({"driver": name, "limits": lim, "runs": 2})
    return out


# --------------------------------------------------------------------------------------------------
class Probe:
    """Per-execution monitors + end-of-run analysis (violations tagged by property)."""

    def __init__(self, case):
        self.case = case
        self.viol: list = []  # (prop, sig, detail)
        self.cur_job = None
        self.releases: Counter = Counter()
        self.consumes: Counter = Counter()
        self.job_created: list = []
        self.cached_release = []

    def v(self, prop, kind, detail):
        self.viol.append((prop, f"{kind}:{self.case['driver']}", detail))

    # monitors called at every choice point
    def at_choice(self, ctl):
        s = ctl.scheduler
        held: Counter = Counter()
        for j in ctl.F:
            for r, n in j.get_limits().items():
                held[r] += n
        for r, n in held.items():
            lim = s.limits.get(r, 1)
            if n > lim:
                self.v("C08", "limit-exceeded", f"resource {r}: {n} units held by in-flight jobs "
                       f"{[evloop.job_key(j) for j in ctl.F]} > limit {lim}")
        for r in set(held) | set(s.limits_used):
            if s.limits_used[r] < held[r]:
                self.v("C08", "accounting-below-held", f"limits_used[{r}]={s.limits_used[r]} but in-flight jobs hold {held[r]}")

    def hook_scheduler(self, env, s):
        probe = self
        orig_release, orig_consume = s._release_resources, s._consume_resources
        orig_done, orig_reject, orig_exec = s._done_job_main_thread, s._reject_job_main_thread, s._exec_job_main_thread

        def release(job_limits):
            j = probe.cur_job
            if job_limits and any(job_limits.values()):
                probe.releases[j.id if j else None] += 1
                if j is not None and j.was_cached:
                    probe.v("C08", "cached-job-releases", f"{evloop.job_key(j)} released {dict(job_limits)}")
            return orig_release(job_limits)

        def consume(job_limits):
            j = probe.cur_job
            if job_limits and any(job_limits.values()):
                probe.consumes[j.id if j else None] += 1
            return orig_consume(job_limits)

        def wrap(fn):
            def w(job, *a, **k):
                prev, probe.cur_job = probe.cur_job, job
                try:
                    return fn(job, *a, **k)
                finally:
                    probe.cur_job = prev
            return w

        s._release_resources = release
        s._consume_resources = consume
        s._done_job_main_thread = wrap(orig_done)
        s._reject_job_main_thread = wrap(orig_reject)
        s._exec_job_main_thread = wrap(orig_exec)

    def end_of_run(self, env, out, expected):
        ctl = env.ctl
        s = ctl.scheduler
        ri = ctl.run_index
        # --- C09
        if out[0] == "hang":
            pend = [evloop.job_key(j) for j, _ in s._jobs_pending_limits]
            self.v("C09", "hang", f"run {ri}: no event, nothing in flight, workflow pending; waiting for limits: {pend}, "
                   f"limits_used={dict(s.limits_used)}")
        if out[0] == "ok":
            if s._jobs:
                self.v("C09", "unsettled-jobs", f"run {ri} returned but _jobs={[evloop.job_key(j) for j in s._jobs]}")
            if s._jobs_pending_limits:
                self.v("C09", "left-waiting", f"run {ri} returned with jobs still waiting for limits")
            if ctl.F:
                self.v("C09", "left-in-flight", f"run {ri} returned with in-flight jobs {[evloop.job_key(j) for j in ctl.F]}")
        # --- C08 end-state
        held: Counter = Counter()
        for j in list(ctl.F) + [q for q in queued_report_jobs(ctl) if not q.was_cached]:
            for r, n in j.get_limits().items():
                held[r] += n
        for r in set(held) | set(s.limits_used):
            if s.limits_used[r] != held[r]:
                self.v("C08", "end-accounting", f"run {ri} ended ({out[0]}) with limits_used[{r}]={s.limits_used[r]}, "
                       f"jobs in flight or with an unprocessed report hold {held[r]}")
        for jid, n in self.releases.items():
            if n > 1:
                self.v("C08", "double-release", f"job {jid} released its units {n} times")
        for jid, n in self.consumes.items():
            if self.releases.get(jid, 0) > n:
                self.v("C08", "release-without-consume", f"job {jid}: {n} consumes, {self.releases[jid]} releases")
        # --- outcome vs expectation (C06 'same result', C07 'result')
        if expected[0] == "ok":
            if out[0] != "ok" or (expected[1] is not None and out[1] != expected[1]):
                if out[0] != "hang":
                    self.v("C06", "wrong-result", f"run {ri}: expected {expected!r} got {out!r}")
        elif expected[0] == "err":
            if out[0] != "err" or (out[1], out[2]) not in expected[1]:
                if out[0] != "hang":
                    self.v("C06", "wrong-result", f"run {ri}: expected error in {expected[1]!r} got {out!r}")

    def end_of_scenario(self, env):
        ctl = env.ctl
        # --- C06: at most one submission per (eval_hash, context_hash) per run
        per: dict = defaultdict(list)
        for ob in ctl.submit_log:
            ri, eval_hash, ctx_hash, opted_out, key = ob
            if not opted_out:
                per[(ri, eval_hash, ctx_hash)].append(key)
        for k, keys in per.items():
            if len(keys) > 1:
                self.v("C06", "submitted-twice", f"run {k[0]}: call {keys[0]} handed to an executor {len(keys)} times")


def submit_logger(ctl):
    from redun.task import CacheScope

    ctl.submit_log = []
    orig = ctl.on_submit

    def on_submit(job, script=False):
        scope = job.get_option("cache_scope", CacheScope.BACKEND, as_type=CacheScope)
        opted_out = scope == CacheScope.NONE or not job.recording_provenance()
        ctl.submit_log.append((ctl.run_index, job.eval_hash, job.context_hash, opted_out, evloop.job_key(job)))
        return orig(job, script)

    ctl.on_submit = on_submit


def callgraph_digest(backend) -> tuple:
    """Normalized call graph: call nodes with children + arguments (ids/timestamps projected away)."""
    from sqlalchemy import text

    s = backend.session
    nodes = s.execute(text("select call_hash, task_hash, args_hash, value_hash from call_node order by call_hash")).fetchall()
    edges = s.execute(text("select parent_id, child_id from call_edge order by parent_id, child_id")).fetchall()
    args = s.execute(text("select arg_hash, call_hash, value_hash, arg_position, arg_key from argument order by arg_hash")).fetchall()
    return (tuple(map(tuple, nodes)), tuple(sorted(set(map(tuple, edges)))), tuple(map(tuple, args)))


def run_scenario(case, prefix):
    D = _drivers()
    build, expected, _ = D[case["driver"]]
    env = evloop.Env(prefix, limits=case["limits"])
    probe = Probe(case)
    env.ctl.monitors.append(probe.at_choice)
    env.hooks.append(probe.hook_scheduler)
    submit_logger(env.ctl)
    try:
        outs = []
        for _ in range(case["runs"]):
            out = env.run(build(), **({"cache": False} if case.get("cache") is False else {}))
            outs.append(out)
            probe.end_of_run(env, out, expected)
        probe.end_of_scenario(env)
        cg = callgraph_digest(env.backend) if all(o[0] == "ok" for o in outs) else None
        res = {
            "viol": probe.viol,
            "outs": [(o[0], repr(o[1:])) for o in outs],
            "cg": hashlib.sha1(repr(cg).encode()).hexdigest()[:16] if cg else None,
            "cg_full": cg,
            "submits": len(env.ctl.submits),
        }
    finally:
        env.close()
    return env.ctl, res


def queued_report_jobs(ctl):
    """Jobs whose completion report is queued but not yet processed by the scheduler."""
    out = []
    for ev in ctl.Q:
        code = getattr(ev, "__code__", None)
        if code is None or not ev.__closure__:
            continue
        if "_done_job_main_thread" in code.co_names or "_reject_job_main_thread" in code.co_names:
            for name, cell in zip(code.co_freevars, ev.__closure__):
                if name == "job" and cell.cell_contents is not None:
                    out.append(cell.cell_contents)
    return out


def explore_case(arg):
    """Worker: explore one subtree of one case; full tree if it fits under the cap, else deviation-bounded."""
    case, cap, bound, start_prefix, root_only = arg
    viol = []
    outcomes: Counter = Counter()
    cgs: dict = {}
    samples = []
    children = []

    def on_exec(choices, res):
        for prop, sig, detail in res["viol"]:
            viol.append((prop, sig, {"case": case, "choices": choices}, detail))
        outcomes[repr(res["outs"])] += 1
        if res["cg"] is not None and res["cg"] not in cgs:
            cgs[res["cg"]] = (choices, res["cg_full"])
        if len(samples) < 2:
            samples.append({"case": case, "choices": choices, "outcome": res["outs"]})

    if root_only:
        # run the default schedule once (twice: determinism self-check) and hand out first-level subtrees
        st = evloop.explore(lambda p: run_scenario(case, p), 0, 10**9, on_exec)
        ctl, _ = run_scenario(case, [])
        for i, (n, _c) in enumerate(ctl.points):
            for alt in range(1, n):
                children.append([0] * i + [alt])
        exhaustive, used_bound = True, None
    else:
        if case.get("only_bound"):
            st = evloop.explore(lambda p: run_scenario(case, p), case["only_bound"], 10**9, on_exec, start_prefix=start_prefix)
            exhaustive, used_bound = False, case["only_bound"]
        else:
            st = evloop.explore(lambda p: run_scenario(case, p), None, cap, on_exec, start_prefix=start_prefix)
            exhaustive = not st.capped
            used_bound = None
        if st.capped:
            viol.clear(); outcomes.clear(); cgs.clear(); samples.clear()
            st = evloop.explore(lambda p: run_scenario(case, p), bound, 10**9, on_exec, start_prefix=start_prefix)
            used_bound = bound
    # keep only the simplest violation per (prop, sig)
    best: dict = {}
    for prop, sig, c, d in viol:
        k = (prop, sig)
        dev = sum(1 for x in c["choices"] if x)
        if k not in best or (dev, len(c["choices"])) < best[k][0]:
            best[k] = ((dev, len(c["choices"])), c, d)
    nviol = Counter((p, s) for p, s, _, _ in viol)
    return {
        "case": case,
        "children": children,
        "stats": st.as_dict(),
        "states": st.states,
        "transitions": len(st.transitions),
        "exhaustive": exhaustive,
        "bound": used_bound,
        "viol": [(p, s, c, d, nviol[(p, s)]) for (p, s), (_, c, d) in best.items()],
        "outcomes": dict(outcomes),
        "cgs": {k: v[0] for k, v in cgs.items()},
        "cg_detail": {k: v[1] for k, v in list(cgs.items())[:4]},
        "samples": samples,
    }


def run_property(ctx, prop: str, extra_cross_check=None, case_filter=None):
    from engine.common import check_harness_errors
    from engine import seams

    seams.template_db()
    cap = ctx.pick(600, 8000)
    bound = ctx.pick(2, 3)
    cs = ctx.rotate([c for c in cases(ctx.tier) if case_filter is None or case_filter(c)])
    roots = ctx.pmap(explore_case, [(c, cap, bound, [], True) for c in cs], chunksize=1)
    check_harness_errors(roots)
    work = []
    for r in roots:
        for pre in r["children"]:
            work.append((r["case"], cap, bound, pre, False))
    subs = ctx.pmap(explore_case, work, chunksize=1)
    check_harness_errors(subs)
    results = roots + subs
    by_case: dict = {}
    for r in results:
        k = (r["case"]["driver"], repr(r["case"]["limits"]), r["case"]["runs"], r["case"].get("cache", True))
        a = by_case.setdefault(k, {"case": r["case"], "states": set(), "transitions": 0, "executions": 0, "full": True,
                                   "bound": None, "max_points": 0, "outcomes": Counter(), "cgs": {}, "cg_detail": {}})
        a["states"] |= r["states"]
        a["transitions"] += r["transitions"]
        a["executions"] += r["stats"]["executions"]
        a["full"] = a["full"] and r["exhaustive"]
        a["bound"] = r["bound"] if r["bound"] is not None else a["bound"]
        a["max_points"] = max(a["max_points"], r["stats"]["max_points"])
        a["outcomes"].update(r["outcomes"])
        for k2, v in r["cgs"].items():
            a["cgs"].setdefault(k2, v)
        for k2, v in r["cg_detail"].items():
            a["cg_detail"].setdefault(k2, v)
    seen_sig = {}
    for r in results:
        for p, s, c, d, n in r["viol"]:
            if p == prop:
                dev = sum(1 for x in c["choices"] if x)
                if s not in seen_sig or dev < seen_sig[s][0]:
                    seen_sig[s] = (dev, c, d, n)
    for s, (dev, c, d, n) in seen_sig.items():
        ctx.violation(s, c, f"[>= {n} executions] {d}")
    if extra_cross_check:
        extra_cross_check(ctx, by_case)
    per_case = [{"driver": a["case"]["driver"], "limits": a["case"]["limits"], "runs": a["case"]["runs"], "cache": a["case"].get("cache", True),
                 "executions": a["executions"], "full_tree": a["full"], "bound": a["bound"], "max_points": a["max_points"],
                 "distinct_states": len(a["states"]), "distinct_outcomes": len(a["outcomes"]),
                 "distinct_callgraphs": len(a["cgs"])} for a in by_case.values()]
    execs = sum(a["executions"] for a in by_case.values())
    nfull = sum(1 for a in by_case.values() if a["full"])
    cov = {
        "states": sum(len(a["states"]) for a in by_case.values()),
        "transitions": sum(a["transitions"] for a in by_case.values()),
        "traces_validated_against_impl": execs,
        "executions": execs,
        "cases": len(by_case),
        "cases_full_interleaving_tree": nfull,
        "deviation_bound_for_capped_subtrees": bound,
        "cap_executions_per_subtree": cap,
        "distinct_outcomes": sum(len(a["outcomes"]) for a in by_case.values()),
        "exhaustive": nfull == len(by_case),
        "per_case": per_case,
        "samples": [r["samples"][0] for r in roots[:3] if r["samples"]],
    }
    return cov


def replay(prop, case):
    _, res = run_scenario(case["case"], case["choices"])
    _, res2 = run_scenario(case["case"], case["choices"])
    assert [v[:2] for v in res["viol"]] == [v[:2] for v in res2["viol"]], "replay not deterministic"
    return [(s, d) for p, s, d in res["viol"] if p == prop]


def diff_callgraphs(a, b) -> str:
    """Human-readable difference of two normalized call graphs."""
    out = []
    names = ["call_node(call_hash,task_hash,args_hash,value_hash)", "call_edge(parent,child)", "argument(arg_hash,call_hash,value_hash,pos,key)"]
    for name, x, y in zip(names, a, b):
        sx, sy = set(x), set(y)
        if sx != sy:
            out.append(f"{name}: only-in-A={sorted(sx - sy)[:3]} only-in-B={sorted(sy - sx)[:3]}")
    return "; ".join(out)[:1500]


def diff_tasks(a, b) -> str:
    """Names of the tasks whose call nodes differ between two call graphs (part of a finding's signature)."""
    from redun.task import get_task_registry

    reg = get_task_registry()
    sa, sb = set(a[0]), set(b[0])
    names = set()
    for node in sa ^ sb:
        t = reg.get(hash=node[1])
        names.add(t.fullname if t else node[1][:8])
    return "+".join(sorted(names))
