"""C05 — results are never shared between calls that ran with different effective contexts (CSE and backend cache)."""
from __future__ import annotations

import itertools

LEVEL = "model_checking"

CTX = {"none": None, "A": {"v": "A"}, "B": {"v": "B"}}


def call(name, shallow, direct=False):
    import wf.tasks as T

    # direct: the context is read by an expression-valued default argument of the called task itself, so that sibling calls
    # under ONE parent job differ only in their context
    t = T.cdef if direct == "default-arg" else (T.cleaf if direct else (T.cmid_s if shallow else T.cmid))
    return t(1) if CTX[name] is None else t.update_context(CTX[name])(1)


def expected(name):
    return (1, "none" if CTX[name] is None else CTX[name]["v"])


def cases(tier):
    out = []
    names = list(CTX)
    for shallow in (False, True):
        for n in (2, 3) if tier != "quick" else (2,):
            for combo in itertools.product(names, repeat=n):
                if len(set(combo)) == 1:
                    continue
                out.append({"ctxs": list(combo), "mode": "seq", "shallow": shallow})
                out.append({"ctxs": list(combo), "mode": "concurrent", "shallow": shallow})
                out.append({"ctxs": list(combo), "mode": "split", "shallow": shallow})
                if not shallow:
                    out.append({"ctxs": list(combo), "mode": "seq", "shallow": False, "direct": True})
                    out.append({"ctxs": list(combo), "mode": "concurrent", "shallow": False, "direct": True})
                if not shallow and n == 2:
                    # the context-reading call is a default argument of the called task (evaluated in that job's environment)
                    out.append({"ctxs": list(combo), "mode": "seq", "shallow": False, "direct": "default-arg"})
                    out.append({"ctxs": list(combo), "mode": "split", "shallow": False, "direct": "default-arg"})
                    # the same under a non-empty configured root context (every job then has a context hash to inherit)
                    out.append({"ctxs": list(combo), "mode": "seq", "shallow": False, "direct": "default-arg", "root_ctx": True})
                # somebody tags the recorded call nodes between two executions (`redun tag add <call_hash> reviewed=true`)
                if n == 2:
                    out.append({"ctxs": list(combo), "mode": "split", "shallow": shallow, "tag_between": True})
                    # every execution is a new process: a fresh backend object on the same database file
                    out.append({"ctxs": list(combo), "mode": "split", "shallow": shallow, "fresh_backend": True})
    if tier == "quick":
        for combo in [("A", "none", "A"), ("none", "A", "none"), ("A", "B", "none")]:
            for shallow in (False, True):
                out.append({"ctxs": list(combo), "mode": "seq", "shallow": shallow})
                out.append({"ctxs": list(combo), "mode": "split", "shallow": shallow})
    return out


def scenario(case, prefix):
    from redun.functools import seq

    from engine import evloop

    env = evloop.Env(prefix, context={"project": "x"} if case.get("root_ctx") else None)
    try:
        outs = []
        if case["mode"] == "seq":
            outs.append(env.run(seq([call(c, case["shallow"], case.get("direct", False)) for c in case["ctxs"]])))
            got = outs[0][1] if outs[0][0] == "ok" else None
        elif case["mode"] == "concurrent":
            outs.append(env.run([call(c, case["shallow"], case.get("direct", False)) for c in case["ctxs"]]))
            got = outs[0][1] if outs[0][0] == "ok" else None
        else:
            got = []
            for k, c in enumerate(case["ctxs"]):
                if k and case.get("fresh_backend"):
                    env.reopen_backend()
                o = env.run(call(c, case["shallow"], case.get("direct", False)))
                outs.append(o)
                if case.get("tag_between"):
                    from redun.backends.db import CallNode
                    from redun.backends.base import TagEntity

                    for (h,) in env.backend.session.query(CallNode.call_hash).all():
                        env.backend.record_tags(TagEntity.CallNode, h, [("reviewed", True)])
                got.append(o[1] if o[0] == "ok" else None)
        return env.ctl, {"outs": [(o[0], repr(o[1:])) for o in outs], "got": [tuple(g) if g is not None else None for g in (got or [])]}
    finally:
        env.close()


def explore_case(arg):
    from engine import evloop

    case, cap, bound = arg
    want = [expected(c) for c in case["ctxs"]]
    viol = []
    outcomes = set()

    def on_exec(choices, res):
        outcomes.add(repr(res["got"]))
        if res["got"] != want:
            i = next((k for k, (g, w) in enumerate(zip(res["got"], want)) if g != w), 0)
            prev = case["ctxs"][:i]
            sig = f"shared-across-contexts:{(str(case.get('direct')) + ':').replace('True', 'direct') if case.get('direct') else ''}{'tagged:' if case.get('tag_between') else ''}{'fresh-backend:' if case.get('fresh_backend') else ''}{'rootctx:' if case.get('root_ctx') else ''}{case['mode']}:{'shallow' if case['shallow'] else 'full'}:call={case['ctxs'][i]}:after={'+'.join(prev) or '-'}"
            viol.append((sig, {"case": case, "choices": choices},
                         f"{case}: call #{i} with context '{case['ctxs'][i]}' returned {res['got'][i] if i < len(res['got']) else res}, expected {want[i]} (all: {res['got']})"))

    st = evloop.explore(lambda p: scenario(case, p), None, cap, on_exec)
    full = not st.capped
    if st.capped:
        viol.clear()
        st = evloop.explore(lambda p: scenario(case, p), bound, 10**9, on_exec)
    best = {}
    for sig, c, d in viol:
        if sig not in best or len(c["choices"]) < len(best[sig][0]["choices"]):
            best[sig] = (c, d)
    return {"viol": [(s, c, d) for s, (c, d) in best.items()], "stats": st.as_dict(), "states": st.states, "ntrans": len(st.transitions),
            "full": full, "outcomes": len(outcomes)}


def run(ctx):
    from engine import seams
    from engine.common import check_harness_errors

    seams.template_db()
    import wf.tasks  # noqa: F401

    cs = ctx.rotate(cases(ctx.tier))
    res = ctx.pmap(explore_case, [(c, ctx.pick(400, 5000), ctx.pick(2, 3)) for c in cs], chunksize=1)
    check_harness_errors(res)
    ctx.add_results(res)
    states = set()
    for c, r in zip(cs, res):
        states |= {(repr(c), s) for s in r["states"]}
    execs = sum(r["stats"]["executions"] for r in res)
    return {"coverage": {
        "states": len(states), "transitions": sum(r["ntrans"] for r in res), "traces_validated_against_impl": execs,
        "cases": len(cs), "cases_full_interleaving_tree": sum(1 for r in res if r["full"]), "exhaustive": all(r["full"] for r in res),
        "rule": "programs calling mid(1) -> leaf(1, v=get_context('v')) two (thorough: three) times under contexts from {none, A, B} in every "
        "order: forced order (seq), concurrent (list), or split over successive executions on one backend; check_valid full and shallow; variants where the context is read by the called task's own default argument, where the "
        "context-reading call itself is a default argument, and where all call nodes get an extra tag between executions, and where every execution uses a new backend object on the same database file; all "
        "completion interleavings; oracle: every call returns the value belonging to its own effective context",
        "samples": cs[:3],
    }, "assumptions": ["see C08 evidence for the schedule space"]}


def replay(ctx, case):
    _, res = scenario(case["case"], case["choices"])
    want = [expected(c) for c in case["case"]["ctxs"]]
    return [("shared-across-contexts", f"{res['got']} vs {want}")] if res["got"] != want else []
