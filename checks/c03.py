"""C03 — shallow (ultimate-reduction) cache hits respect code changes anywhere in the recorded subtree, whatever
happened to the backend before: crash at every commit, transient fault at every statement, records transferred
from another repository."""
LEVEL = "fault_enumeration"

ROOTS = {"chain-shallow": ("top", ["top", "mid", "leaf"], {"top": {"check_valid": "shallow"}}),
         "fan-shallow": ("fanout", ["fanout", "leaf", "idt"], {"fanout": {"check_valid": "shallow"}}),
         # children run without provenance: their tasks are only known through the parent's subtree-task rows
         "noprov-shallow": ("top", ["top", "mid", "leaf"], {"top": {"check_valid": "shallow"}, "mid": {"prov": False}})}


def transfer_leg(ctx):
    """Source repo runs the workflow; records are transferred (all roots / each execution) into an empty repo with the
    backend's own get_records/put_records (what push, pull, export and import use); then every edit x shallow run."""
    import wf.editable as E
    from checks import crash_common as cc
    from engine import crash, seams

    n = 0
    for wname, (root, editable, shallow) in ROOTS.items():

        def wl(env):
            return [env.run(E.T(root)(1))]

        E.define_all({}, shallow)
        src = seams.fresh_db_path("src")
        crash.run_workload(wl, src)
        for how in ("sync", "records-roundtrip-json"):
            dst = seams.fresh_db_path("dst")
            bs, bd = seams.open_backend(src), seams.open_backend(dst)
            try:
                from redun.backends.db import Execution

                roots = [r[0] for r in bs.session.query(Execution.id).all()]
                ids = list(bs.iter_record_ids(roots))
                recs = list(bs.get_records(ids))
                if how != "sync":
                    import json

                    recs = [json.loads(json.dumps(r)) for r in recs]
                bd.put_records(recs)
            finally:
                seams.close_backend(bs)
                seams.close_backend(bd)
            sub = crash.subtree_invariant(dst)
            if sub:
                ctx.violation(f"transfer:subtree-invariant:{wname}:{sub[0][0]}", {"workload": wname, "how": how},
                              f"{wname}: after transferring all records into an empty repository, {len(sub)} call nodes have an incomplete "
                              f"subtree-task set: {sub[:3]}")
            for t in [None] + editable:
                bodies = {t: 1} if t else {}
                E.define_all(bodies, shallow)
                exp_db = seams.fresh_db_path("exp")
                _, exp, _ = crash.run_workload(wl, exp_db)
                seams.remove_db(exp_db)
                d2 = crash.copy_db(dst, "dst2")
                E.define_all(bodies, shallow)
                _, got, _ = crash.run_workload(wl, d2, id_salt=2)
                calls = dict(E.CALLS)
                seams.remove_db(d2)
                n += 1
                if cc.norm(got) != cc.norm(exp):
                    ctx.violation(f"transfer:stale-shallow-hit:{wname}:edit-{t}", {"workload": wname, "how": how, "edit": t},
                                  f"{wname}: records transferred into another repository; after editing task '{t}' a check_valid=shallow run "
                                  f"returns {cc.norm(got)} (functions run: {calls}) but an empty backend gives {cc.norm(exp)}")
            seams.remove_db(dst)
        seams.remove_db(src)
    return n


def calltime_leg(ctx):
    """check_valid="shallow" given at call time on a call that is answered from the cache beneath a newly recorded (shallow) ancestor:
    the ancestor's recorded subtree must still contain the tasks below that call."""
    import wf.editable as E
    from checks import crash_common as cc
    from engine import crash, seams

    n = 0
    for rootname, second_tag in [("smain", "a"), ("smain", "b"), ("nouter", "a"), ("nouter", "b")]:
        opts = {rootname: {"check_valid": "shallow"}}
        for edit in (None, "leaf", "mid", rootname) + (("nglue",) if rootname == "nouter" else ()):
            db = seams.fresh_db_path("c03ct")
            E.define_all({}, opts)
            crash.run_workload(lambda env: [env.run(E.T(rootname)(("a", 1))), env.run(E.T(rootname)((second_tag, 1)))], db)
            sub = crash.subtree_invariant(db) if edit is None else None
            if sub:
                ctx.violation(f"calltime-shallow:subtree-invariant:{rootname}:{sub[0][0]}", {"root": rootname, "second_tag": second_tag, "edit": None},
                              f"{rootname}[shallow](('a',1)); {rootname}(('{second_tag}',1)): {len(sub)} call nodes have an incomplete subtree-task set: {sub[:3]}")
            bodies = {edit: 1} if edit else {}
            E.define_all(bodies, opts)
            _, got, _ = crash.run_workload(lambda env: [env.run(E.T(rootname)((second_tag, 1)))], db, id_salt=3)
            calls = dict(E.CALLS)
            E.define_all(bodies, opts)
            exp_db = seams.fresh_db_path("c03cte")
            _, exp, _ = crash.run_workload(lambda env: [env.run(E.T(rootname)((second_tag, 1)))], exp_db)
            seams.remove_db(exp_db)
            seams.remove_db(db)
            n += 1
            if cc.norm(got) != cc.norm(exp):
                ctx.violation(f"calltime-shallow:stale-hit:{rootname + ':' if rootname != 'smain' else ''}edit-{edit}", {"root": rootname, "second_tag": second_tag, "edit": edit},
                              f"{rootname}[shallow](('a',1)); {rootname}(('{second_tag}',1)); edit {edit}; {rootname}(('{second_tag}',1)) returns {cc.norm(got)} "
                              f"(functions run: {calls}), an empty backend gives {cc.norm(exp)}; mid is called with .options(check_valid='shallow')"
                              + (" from nglue, a fully checked task between the shallow root and the shallow call" if rootname == "nouter" else ""))
    return n


def run(ctx):
    from checks import crash_common

    for w, (root, editable, opts) in ROOTS.items():
        crash_common.WORKLOADS[w] = (root, 1, editable, None)
        crash_common.SHALLOW[w] = opts
    wl = ctx.pick(["chain-shallow", "noprov-shallow"], ["chain-shallow", "fan-shallow", "noprov-shallow"])
    cov = crash_common.run_property(ctx, "C03", wl)
    n = transfer_leg(ctx)
    n_ct = calltime_leg(ctx)
    cov["calltime_shallow_histories"] = n_ct
    cov["evaluations"] += n + n_ct
    cov["transfer_runs"] = n
    cov["rule"] = ("workflow top[check_valid=shallow] -> mid -> leaf (thorough: also a fan with a duplicate child): first execution is "
                   "crashed before EVERY commit / hit by a transient fault at EVERY statement / transferred to another repository; then every "
                   "single-task edit (and no edit) followed by a shallow run must equal the empty-backend result, and the state invariant "
                   "'subtree-task set of a call node contains its own task and its children's sets' must hold on every database produced")
    return {"coverage": cov, "assumptions": ["SQLite commits are atomic", "transfer leg uses get_records/put_records directly (C23 drives the CLI)"]}
