"""Extra legs of C21.

* shapes - every way Python binds a call to 5 task signatures (positional-or-keyword with defaults, *args followed by keyword-only
           defaults, keyword-only, **kwargs): the recorded Argument rows must be the passed positionals by position, the passed keywords by
           key and every defaulted parameter by key, with the values the task received.
* replay - the consumer of a task result runs in a *later* execution than the producer, while the expression that connects them is
           replayed from the cache of their common parent (consumer edited, parent and producers cached): the upstream links of the
           new consumer call must equal those an empty backend records for the same program, and contain the required producers.
"""
from __future__ import annotations

import inspect
import itertools
import sqlite3


# ------------------------------------------------------------------------------------------------ shapes
def sig_tasks():
    from redun import task

    RECEIVED = {}

    def f1(a, b=2, c="c"):
        RECEIVED["f1"] = dict(a=a, b=b, c=c)
        return 1

    def f2(first, *rest, scale=3, label="sum"):
        RECEIVED["f2"] = dict(first=first, rest=rest, scale=scale, label=label)
        return 2

    def f3(*, k=1, m):
        RECEIVED["f3"] = dict(k=k, m=m)
        return 3

    def f4(a, b=5, **extra):
        RECEIVED["f4"] = dict(a=a, b=b, extra=extra)
        return 4

    def f5(*vals):
        RECEIVED["f5"] = dict(vals=vals)
        return 5

    T = {n: task(name=n, namespace="c21s")(fn) for n, fn in (("f1", f1), ("f2", f2), ("f3", f3), ("f4", f4), ("f5", f5))}
    return T, RECEIVED


def call_shapes(fn, kwnames):
    """All (n positional, keyword subset) that bind."""
    sig = inspect.signature(fn)
    out = []
    for n in range(0, 5):
        for r in range(0, len(kwnames) + 1):
            for ks in itertools.combinations(kwnames, r):
                args = tuple(10 + i for i in range(n))
                kwargs = {k: f"kw-{k}" for k in ks}
                try:
                    sig.bind(*args, **kwargs)
                except TypeError:
                    continue
                out.append((args, kwargs))
    return out


def expected_rows(fn, args, kwargs):
    """Reference: positionals by position, passed keywords by key, defaulted parameters by key with their default value."""
    sig = inspect.signature(fn)
    bound = sig.bind(*args, **kwargs)
    rows = {("pos", i): v for i, v in enumerate(args)}
    rows.update({("key", k): v for k, v in kwargs.items()})
    for name, p in sig.parameters.items():
        if p.kind in (p.VAR_POSITIONAL, p.VAR_KEYWORD):
            continue
        if name not in bound.arguments and p.default is not p.empty:
            rows[("key", name)] = p.default
    return rows


def recorded_rows(db, backend, task_name):
    con = sqlite3.connect(db)
    try:
        rows = con.execute("select a.arg_position, a.arg_key, a.value_hash from argument a join call_node c on a.call_hash=c.call_hash where c.task_name=?",
                           (task_name,)).fetchall()
    finally:
        con.close()
    out = {}
    for pos, key, vh in rows:
        v, ok = backend.get_value(vh)
        out[("pos", pos) if pos is not None else ("key", key)] = v if ok else "<unreadable>"
    return out


def shapes_leg(ctx):
    from engine import evloop

    T, RECEIVED = sig_tasks()
    n = 0
    for name, kwnames in (("f1", ["a", "b", "c"]), ("f2", ["first", "scale", "label"]), ("f3", ["k", "m"]), ("f4", ["a", "b", "z"]), ("f5", [])):
        t = T[name]
        for args, kwargs in call_shapes(t.func, kwnames):
            env = evloop.Env([])
            case = {"leg": "shapes", "task": name, "args": list(args), "kwargs": kwargs}
            try:
                out = env.run(t(*args, **kwargs))
                got = recorded_rows(env.db_path, env.backend, f"c21s.{name}")
            finally:
                env.close()
            n += 1
            if out[0] != "ok":
                ctx.violation(f"shapes:run-fails:{name}", case, f"{case}: {out!r}")
                continue
            want = expected_rows(t.func, args, kwargs)
            if {k: repr(v) for k, v in got.items()} != {k: repr(v) for k, v in want.items()}:
                missing = sorted(k for k in want if k not in got)
                kind = "default-not-recorded" if any(k[0] == "key" and k[1] not in kwargs for k in missing) else "rows-differ"
                ctx.violation(f"shapes:{kind}:{name}:npos={len(args)}", case,
                              f"{name}{args}{kwargs}: recorded arguments {got}, expected {want} (task received {RECEIVED.get(name)})")
    return n


# ------------------------------------------------------------------------------------------------ replay
WRAPS = ["direct", "cond-true", "cond-false", "seq", "catch-ok", "catch-recovered", "list", "op", "getitem", "nested-cond", "kw-direct", "kw-cond"]


def replay_tasks(body_version):
    from redun import task
    from redun.functools import seq
    from redun.scheduler import catch, cond

    REG = {}

    def p(x):
        return x > 0

    def a(x):
        return [x, "a"]

    def b(x):
        return [x, "b"]

    def bad(x):
        raise ValueError("bad")

    def rec(err):
        return [0, "recovered"]

    def follow(v=None):
        return ("followed", body_version, repr(v))

    def outer(wrap):
        A, B, P = REG["a"](1), REG["b"](2), REG["p"]
        e = {
            "direct": lambda: A,
            "cond-true": lambda: cond(P(1), A, B),
            "cond-false": lambda: cond(P(0), A, B),
            "seq": lambda: seq([A, B]),
            "catch-ok": lambda: catch(A, ValueError, REG["rec"]),
            "catch-recovered": lambda: catch(REG["bad"](1), ValueError, REG["rec"]),
            "list": lambda: [A, {"k": B}],
            "op": lambda: A + B,
            "getitem": lambda: A[1],
            "nested-cond": lambda: [cond(P(1), A, B)[0]],
            "kw-direct": lambda: A,
            "kw-cond": lambda: cond(P(0), A, B),
        }[wrap]()
        if wrap.startswith("kw-"):
            return REG["follow"](v=e)
        return REG["follow"](e)

    for name, fn in (("p", p), ("a", a), ("b", b), ("bad", bad), ("rec", rec), ("outer", outer)):
        REG[name] = task(name=name, namespace="c21r")(fn)
    REG["follow"] = task(name="follow", namespace="c21r", source=f"def follow(v): # body {body_version}")(follow)
    return REG


REQUIRED = {"direct": {"a"}, "cond-true": {"a"}, "cond-false": {"b"}, "seq": {"a", "b"}, "catch-ok": {"a"}, "catch-recovered": {"rec"}, "list": {"a", "b"},
            "op": {"a", "b"}, "getitem": {"a"}, "nested-cond": {"a"}, "kw-direct": {"a"}, "kw-cond": {"b"}}


def follow_upstreams(db, task_hash):
    """Names of the tasks whose call nodes are linked as upstream of the arguments of the `follow` call made with task `task_hash`."""
    con = sqlite3.connect(db)
    try:
        rows = con.execute(
            "select up.task_name from call_node c join argument a on a.call_hash=c.call_hash "
            "join argument_result r on r.arg_hash=a.arg_hash join call_node up on up.call_hash=r.result_call_hash "
            "where c.task_hash=?", (task_hash,)).fetchall()
        n_nodes = con.execute("select count(*) from call_node where task_hash=?", (task_hash,)).fetchone()[0]
    finally:
        con.close()
    return n_nodes, sorted({r[0].split(".")[-1] for r in rows})


def replay_leg(ctx):
    from engine import evloop, seams

    n = 0
    links = 0
    for wrap in WRAPS:
        case = {"leg": "replay", "wrap": wrap}
        # ground truth: the edited program on an empty backend
        R1 = replay_tasks(1)
        env = evloop.Env([])
        try:
            o = env.run(R1["outer"](wrap))
            fresh = follow_upstreams(env.db_path, R1["follow"].hash)
        finally:
            env.close()
        if o[0] != "ok" or fresh[0] != 1:
            ctx.violation(f"replay:fresh-run-fails:{wrap}", case, f"{case}: {o!r} {fresh}")
            continue
        if not REQUIRED[wrap] <= set(fresh[1]):
            ctx.violation(f"replay:upstream-missing-on-empty-backend:{wrap}", case, f"{wrap}: follow's argument is linked to {fresh[1]}, required {sorted(REQUIRED[wrap])}")
        # history: body 0 first, then body 1 on the same backend (outer, a, b, p, ... replayed from cache; follow runs anew)
        db = seams.fresh_db_path("c21r")
        try:
            R0 = replay_tasks(0)
            env = evloop.Env([], db_path=db, id_salt=1)
            try:
                env.run(R0["outer"](wrap))
            finally:
                env.close()
            R1 = replay_tasks(1)
            env = evloop.Env([], db_path=db, id_salt=2)
            try:
                o2 = env.run(R1["outer"](wrap))
                calls = dict(env.ctl.func_calls)
                cached = follow_upstreams(db, R1["follow"].hash)
            finally:
                env.close()
        finally:
            seams.remove_db(db)
        n += 1
        links += len(cached[1])
        if o2 != o:
            ctx.violation(f"replay:result-differs:{wrap}", case, f"{wrap}: {o2!r} vs {o!r}")
            continue
        if set(calls) - {"c21r.follow"}:
            continue  # nothing was replayed from the cache: not the situation this leg is about
        if cached[0] != 1:
            ctx.violation(f"replay:consumer-call-node:{wrap}", case, f"{wrap}: {cached[0]} call nodes for the edited follow")
        elif cached[1] != fresh[1]:
            ctx.violation(f"replay:upstream-links-lost-after-cache-replay:{wrap}", case,
                          f"{wrap}: follow (edited, so it runs again while its parent and producers are replayed from the cache) is linked to upstream "
                          f"calls {cached[1]}; the same program on an empty backend links {fresh[1]}")
    return n, links


# ------------------------------------------------------------------------------------------------ duplicates
DUP_FORMS = ["direct", "cond", "seq", "catch", "op", "getitem", "list"]


def dup_leg(ctx):
    """Two distinct but equal connecting expressions inside one parent job feed two different consumers: the second one is not evaluated
    again (the scheduler reuses the first one's promise) but its consumer must get the same upstream links."""
    from redun import task
    from redun.functools import seq
    from redun.scheduler import catch, cond

    from engine import evloop

    n = 0
    for form in DUP_FORMS:
        REG = {}

        def a(x):
            return [x, "a"]

        def b(x):
            return [x, "b"]

        def p(x):
            return x > 0

        def rec(e):
            return 0

        def first(v):
            return ("first", repr(v))

        def second(v):
            return ("second", repr(v))

        def make(form=form):
            A, B = REG["a"](1), REG["b"](2)
            return {"direct": lambda: A, "cond": lambda: cond(REG["p"](1), A, B), "seq": lambda: seq([A, B]), "catch": lambda: catch(A, ValueError, REG["rec"]),
                    "op": lambda: A + B, "getitem": lambda: A[0], "list": lambda: [A, B]}[form]()

        def outer():
            return [REG["first"](make()), REG["second"](make())]

        for name, fn in (("a", a), ("b", b), ("p", p), ("rec", rec), ("first", first), ("second", second), ("outer", outer)):
            REG[name] = task(name=name, namespace="c21d")(fn)
        env = evloop.Env([])
        case = {"leg": "duplicates", "form": form}
        try:
            o = env.run(REG["outer"]())
            ups = [follow_upstreams(env.db_path, REG[t].hash) for t in ("first", "second")]
        finally:
            env.close()
        n += 1
        if o[0] != "ok":
            ctx.violation(f"dup:run-fails:{form}", case, f"{form}: {o!r}")
        elif ups[0] != ups[1] or not ups[0][1]:
            ctx.violation(f"dup:upstream-links-lost-for-duplicate-expression:{form}", case,
                          f"{form}: two equal expressions in one job feed first() and second(); first's argument is linked to {ups[0][1]}, second's to {ups[1][1]}")
    return n
