"""C20, tag placement leg: every tag applied during a run (task option tags=, apply_tags on a value / the current job / the execution,
run(tags=)) ends up on exactly the intended entity - for fresh, duplicate (CSE / collapsed) and cache-replayed jobs."""
from __future__ import annotations

import itertools
import json
import sqlite3

ALPHABET = ["step", "step-dup", "val-tag", "job-tag", "exec-tag", "inline-val", "inline-job"]


def make_tasks(shallow):
    from redun import apply_tags, task

    import wf.tasks as T

    REG = {}

    def step(x):
        return x + 1

    def tagger(x, where):
        if where == "value":
            return apply_tags(x, [("vt", "v")])
        if where == "job":
            return apply_tags(x, job_tags=[("jt", "j")])
        return apply_tags(x, execution_tags=[("et", "e")])

    def main(plan):
        out = []
        for el in plan:
            out.append({
                "step": lambda: REG["step"](1),
                "step-dup": lambda: REG["step"](T.ident(1)),
                "val-tag": lambda: REG["tagger"](5, "value"),
                "job-tag": lambda: REG["tagger"](6, "job"),
                "exec-tag": lambda: REG["tagger"](7, "exec"),
                "inline-val": lambda: apply_tags(9, [("iv", 1)]),
                "inline-job": lambda: apply_tags(8, job_tags=[("ij", 1)]),
            }[el]())
        return out

    REG["step"] = task(name="step", namespace="c20t", tags=[("kind", "step")])(step)
    REG["tagger"] = task(name="tagger", namespace="c20t")(tagger)
    REG["main"] = task(name="main", namespace="c20t", **({"check_valid": "shallow"} if shallow else {}))(main)
    return REG


def scenario(plan, shallow, prefix):
    from redun.value import get_type_registry

    from engine import evloop

    REG = make_tasks(shallow)
    env = evloop.Env(prefix)
    observed = []

    def hook(env_, s):
        orig = s._exec_job_main_thread

        def wrapped(job, eval_args):
            r = orig(job, eval_args)
            if job.recording_provenance():
                observed.append((job.id, job.task.fullname, repr(job.args[0]) if job.args else ""))
            return r

        s._exec_job_main_thread = wrapped

    env.hooks.append(hook)
    try:
        outs = [env.run(REG["main"](list(plan)), tags=[("run", "r")]) for _ in range(2)]
        con = sqlite3.connect(env.db_path)
        try:
            tags = con.execute("select entity_type, entity_id, key, value, is_current from tag").fetchall()
            execs = [r[0] for r in con.execute("select e.id from execution e join job j on j.id=e.job_id order by j.start_time, e.id").fetchall()]
            jobs = {r[0] for r in con.execute("select id from job").fetchall()}
        finally:
            con.close()
    finally:
        env.close()
    reg = get_type_registry()
    want = set()
    seen = list(dict.fromkeys(observed))
    first_main = next((j for j, n_, _ in seen if n_ == "c20t.main"), None)
    for jid, name, args in seen:
        if jid not in jobs:
            continue
        if name == "c20t.step":
            want.add(("Job", jid, "kind", json.dumps("step")))
            want.add(("Task", REG["step"].hash, "kind", json.dumps("step")))
        if name == "c20t.tagger" and "'job'" in args:
            want.add(("Job", jid, "jt", json.dumps("j")))
        if name == "c20t.main" and "inline-job" in plan and (not shallow or jid == first_main):
            # a shallow cache hit replays main's final result without retracing its body: nothing inside it is "applied during the run"
            want.add(("Job", jid, "ij", "1"))
    if "val-tag" in plan:
        want.add(("Value", reg.get_hash(5), "vt", json.dumps("v")))
    if "inline-val" in plan:
        want.add(("Value", reg.get_hash(9), "iv", "1"))
    first_exec = execs[0] if execs else None
    for ex in execs:
        want.add(("Execution", ex, "run", json.dumps("r")))
        if "exec-tag" in plan and (not shallow or ex == first_exec):
            want.add(("Execution", ex, "et", json.dumps("e")))
    got = {(t, i, k, v) for t, i, k, v, cur in tags if cur}
    stale = [(t, i, k, v) for t, i, k, v, cur in tags if not cur]
    viol = []
    if any(o[0] != "ok" for o in outs) or len(execs) != 2:
        viol.append(("tags:run-fails", f"{outs!r} executions={len(execs)}"))
    else:
        missing, extra = want - got, got - want
        names = {j: n for j, n, _ in seen}

        def describe(t):
            return f"{t[0]}:{names.get(t[1], t[1][:8])}:{t[2]}"

        if missing:
            kind = sorted({f"{t[0]}:{t[2]}" for t in missing})[0]
            viol.append((f"tags:missing:{kind}", f"tags not attached: {sorted(map(describe, missing))} (jobs created: {[(j[-4:], n) for j, n, _ in seen]})"))
        if extra:
            kind = sorted({f"{t[0]}:{t[2]}" for t in extra})[0]
            viol.append((f"tags:on-wrong-entity:{kind}", f"unexpected tags: {sorted(map(describe, extra))}"))
        if stale:
            viol.append(("tags:superseded-without-edit", f"{stale}"))
    env.ctl.obs = [("tags", sorted(map(str, got)))]
    return env.ctl, {"viol": viol, "ntags": len(got)}


def work(arg):
    from engine import evloop

    plans, bound = arg
    viol = []
    n = 0
    ntags = 0
    execs = 0
    for plan, shallow in plans:
        case_base = {"plan": list(plan), "shallow": shallow}

        def on_exec(choices, res, case_base=case_base):
            nonlocal n, ntags
            n += 1
            ntags += res["ntags"]
            for sig, d in res["viol"]:
                viol.append((sig + (":shallow" if case_base["shallow"] else ""), dict(case_base, choices=choices), f"{case_base} schedule {choices}: {d}"))

        st = evloop.explore(lambda p, plan=plan, shallow=shallow: scenario(plan, shallow, p), bound, 10**6, on_exec, selfcheck=False)
        execs += st.executions
    best = {}
    for s, c, d in viol:
        if s not in best or len(c["plan"]) < len(best[s][0]["plan"]):
            best[s] = (c, d)
    return {"viol": [(s, c, d) for s, (c, d) in best.items()], "n": n, "ntags": ntags}


def tags_leg(ctx):
    from engine.common import check_harness_errors

    K = ctx.pick(3, 4)
    plans = [p for k in range(1, K + 1) for p in itertools.combinations(ALPHABET, k)] + [tuple(ALPHABET), ("step", "step"), ("step-dup", "step", "step-dup")]
    items = [(p, sh) for p in plans for sh in (False, True)]
    dup = [(p, sh) for p, sh in items if "step" in p and "step-dup" in p and len(p) <= 3]
    work_items = [(items[i:i + 12], 0) for i in range(0, len(items), 12)] + [(dup[i:i + 3], ctx.pick(1, 2)) for i in range(0, len(dup), 3)]
    res = ctx.pmap(work, ctx.rotate(work_items), chunksize=1)
    check_harness_errors(res)
    ctx.add_results(res)
    return {"tag_plans": len(items), "tag_executions": sum(r["n"] for r in res), "tag_rows_checked": sum(r["ntags"] for r in res)}


def replay(ctx, case):
    _, res = scenario(tuple(case["plan"]), case["shallow"], case.get("choices", []))
    return [(s + (":shallow" if case["shallow"] else ""), d) for s, d in res["viol"]]
