"""C01 — Scheduler.run agrees with the graph-reduction semantics (reference interpreter), for every generated
program up to a size bound, under the controlled event loop (default schedule + bounded deviations) and under the
real LocalExecutor in thread / process / async modes.
"""
from __future__ import annotations

from collections import Counter

LEVEL = "model_checking"


def sig_of(ast, kind):
    """Signature = violation kind + the multiset of node kinds in the smallest failing program (root first)."""
    from engine import progs

    kinds = []

    def walk(a):
        if isinstance(a, tuple) and a and a[0] in progs.KINDS:
            kinds.append(a[0] + (":" + a[1] if a[0] in ("call", "map", "flat_map", "catch", "partial", "kwcall", "map_partial") and isinstance(a[1], str) else ""))
            for c in progs._children(a):
                walk(c)

    walk(ast)
    return f"{kind}:{'>'.join(kinds[:4])}"


def check_programs(arg):
    """Worker: run a chunk of programs under the controlled loop. mode: ('default',) or ('dev', bound)."""
    from engine import evloop, progs

    chunk, bound = arg
    viol = []
    stats = evloop.ExploreStats()
    nontriv = 0
    outcomes = Counter()
    samples = []
    for ast in chunk:
        expected = progs.ref(ast)

        def scenario(prefix, ast=ast):
            env = evloop.Env(prefix)
            try:
                out = env.run(progs.build(ast))
                return env.ctl, (out, len(env.ctl.submits))
            finally:
                env.close()

        def on_exec(choices, res, ast=ast, expected=expected):
            out, nsub = res
            o = progs.outcome_of(out)
            outcomes[o[0]] += 1
            if o not in expected:
                kind = "hang" if out[0] == "hang" else ("wrong-value" if o[0] == "val" else "wrong-error")
                viol.append((sig_of(ast, kind), {"ast": ast, "choices": choices},
                             f"program {ast!r}\n schedule {choices}\n got {out!r}\n admissible {sorted(expected, key=repr)!r}"))

        st = evloop.explore(scenario, bound, 10**9, on_exec, selfcheck=(ast is chunk[0]))
        stats.merge(st)
        if progs.count_calls(ast) >= 2 or progs.has_control(ast):
            nontriv += 1
        if len(samples) < 1 and progs.size(ast) >= 3:
            samples.append({"ast": repr(ast), "admissible": repr(sorted(expected, key=repr))})
    return {"viol": viol[:50], "stats": stats.as_dict(), "states": stats.states, "ntrans": len(stats.transitions),
            "nontriv": nontriv, "outcomes": dict(outcomes), "samples": samples, "n": len(chunk)}


def check_real_modes(arg):
    """Worker: run programs on the real LocalExecutor with a per-task mode assignment (mode coverage leg)."""
    from redun import Scheduler
    from redun.config import Config

    from engine import progs, seams

    chunk, assignment = arg
    viol = []
    n = 0
    for ast in chunk:
        expected = progs.ref(ast)
        path = seams.fresh_db_path("real")
        backend = seams.open_backend(path)
        try:
            s = Scheduler(config=Config(config_dict={}), backend=backend)
            try:
                v = s.run(progs.build(ast, opts=assignment))
                out = ("ok", v)
            except Exception as e:  # noqa: BLE001
                out = ("err", type(e).__name__, str(e))
            n += 1
            if progs.outcome_of(out) not in expected:
                viol.append((sig_of(ast, "real-executor:" + "+".join(sorted({o.get('executor', 'default') for o in assignment.values()}))),
                             {"ast": ast, "assignment": assignment},
                             f"program {ast!r} modes {assignment} got {out!r} admissible {sorted(expected, key=repr)!r}"))
        finally:
            seams.close_backend(backend)
            seams.remove_db(path)
    return {"viol": viol[:50], "n": n}


def chunks(lst, k):
    return [lst[i:i + k] for i in range(0, len(lst), k)]


def operators_leg(ctx):
    """Every lazy operator, in the forms expr<op>expr, expr<op>value and value<op>expr (reflected), over small operands:
    the scheduler's result equals Python's (redun documents & and | as lazy `and` / `or`)."""
    import operator

    import wf.tasks as T
    from engine import evloop

    OPS = {"==": operator.eq, "!=": operator.ne, "<": operator.lt, "<=": operator.le, ">": operator.gt, ">=": operator.ge, "+": operator.add,
           "-": operator.sub, "*": operator.mul, "/": operator.truediv, "&": lambda a, b: a and b, "|": lambda a, b: a or b}
    APPLY = {"==": lambda a, b: a == b, "!=": lambda a, b: a != b, "<": lambda a, b: a < b, "<=": lambda a, b: a <= b, ">": lambda a, b: a > b,
             ">=": lambda a, b: a >= b, "+": lambda a, b: a + b, "-": lambda a, b: a - b, "*": lambda a, b: a * b, "/": lambda a, b: a / b,
             "&": lambda a, b: a & b, "|": lambda a, b: a | b}
    ints = [0, 1, 5, 7]
    cases, exprs, want = [], [], []
    for sym in OPS:
        operands = [(a, b) for a in ints for b in ints] + ([(a, b) for a in (0, 5, [], "") for b in ([], "", None)] if sym in "&|" else [])
        for a, b in operands:
            if sym == "/" and b == 0:
                continue
            for form in ("expr-expr", "expr-value", "value-expr"):
                x = T.ident(a) if form != "value-expr" else a
                y = T.ident(b) if form != "expr-value" else b
                cases.append({"operator": sym, "form": form, "a": a, "b": b})
                exprs.append(APPLY[sym](x, y))
                want.append(OPS[sym](a, b))
    env = evloop.Env([])
    try:
        out = env.run(exprs)
    finally:
        env.close()
    if out[0] != "ok":
        ctx.violation("operators:run-fails", {"n": len(exprs)}, repr(out)[:300])
        return len(exprs)
    seen = set()
    for c, g, w in zip(cases, out[1], want):
        if (type(g), g) != (type(w), w):
            sig = f"operators:wrong-result:{c['operator']}:{c['form']}"
            if sig not in seen:
                seen.add(sig)
                ctx.violation(sig, c, f"{c['a']!r} {c['operator']} {c['b']!r} written as {c['form']}: scheduler gave {g!r}, Python gives {w!r}")
    return len(exprs)


def run(ctx):
    from engine import progs, seams
    from engine.common import check_harness_errors

    seams.template_db()
    n_default = ctx.pick(4, 4)
    progs_default = progs.programs(n_default, rich=True) + progs.sharp_programs()
    if not ctx.quick:
        progs_default += progs.roots(5, rich=False)
    n_dev, bound = ctx.pick((3, 1), (3, 2))
    progs_dev = progs.programs(n_dev, rich=True)
    work = [(c, 0) for c in chunks(ctx.rotate(progs_default), 40)] + [(c, bound) for c in chunks(ctx.rotate(progs_dev), 8)]
    res = ctx.pmap(check_programs, work, chunksize=1)
    check_harness_errors(res)
    ctx.add_results(res)
    # real-executor leg: thread / process assignments over the user tasks, exhaustive for the small family
    tasks = ["inc", "ident", "fail", "add", "mklist", "fan", "twice", "recover"]
    small = progs.programs(ctx.pick(2, 3), rich=False)
    assigns = [{}, {t: {"executor": "process"} for t in tasks}]
    assigns += [{t: {"executor": "process"}} for t in ctx.pick(["inc"], ["inc", "add", "fail", "mklist"])]
    real_work = [(c, a) for a in assigns for c in chunks(small, 4)]
    res2 = ctx.pmap_nondaemonic(check_real_modes, real_work)
    check_harness_errors(res2)
    ctx.add_results(res2)
    n_ops = operators_leg(ctx)
    states = set().union(*[r["states"] for r in res])
    execs = sum(r["stats"]["executions"] for r in res)
    outcomes = Counter()
    for r in res:
        outcomes.update(r["outcomes"])
    return {
        "coverage": {
            "states": len(states),
            "transitions": sum(r["ntrans"] for r in res),
            "traces_validated_against_impl": execs + sum(r["n"] for r in res2),
            "programs_default_schedule": len(progs_default),
            "programs_with_deviation_exploration": len(progs_dev),
            "deviation_bound": bound,
            "real_executor_runs": sum(r["n"] for r in res2),
            "operator_expressions": n_ops,
            "real_executor_assignments": len(assigns),
            "distinct_nontrivial": sum(r["nontriv"] for r in res),
            "outcome_kinds": dict(outcomes),
            "exhaustive": True,
            "rule": f"every typed program AST of size <= {n_default} over the production set (task calls incl. nested-expression tasks, "
            "expression-valued defaults, partials, kwargs, nout, lazy + and [], containers incl. namedtuple/dataclass/set/dict, cond, seq, "
            "catch, catch_all, map_, flat_map, apply_func, fork/join_thread, apply_tags, throw) run on the real Scheduler under the "
            f"controlled event loop; programs of size <= {n_dev} additionally under every schedule with <= {bound} deviations; the small "
            "family additionally on the real LocalExecutor with thread/process assignments; oracle: outcome is in the reference "
            "interpreter's admissible set (value type-exact, or (error type, message)); non-trivial = >=2 task calls or a control form",
            "samples": [s for r in res for s in r["samples"]][:3],
        },
        "assumptions": ["real-executor leg enumerates programs and mode assignments exhaustively but takes the pool's timing as it comes",
                        "async task mode is covered only by the async-on-sync-executor driver of C08 (LocalExecutor's async thread is not controlled)"],
    }


def replay(ctx, case):
    from engine import evloop, progs
    from engine.common import unjson

    def tup(x):
        return tuple(tup(i) for i in x) if isinstance(x, (list, tuple)) else x

    ast = tup(unjson(case["ast"]))
    expected = progs.ref(ast)
    if "assignment" in case:
        r = check_real_modes(([ast], case["assignment"]))
        return [(s, d) for s, _, d in r["viol"]]
    env = evloop.Env(case["choices"])
    try:
        out = env.run(progs.build(ast))
    finally:
        env.close()
    o = progs.outcome_of(out)
    if o not in expected:
        kind = "hang" if out[0] == "hang" else ("wrong-value" if o[0] == "val" else "wrong-error")
        return [(sig_of(ast, kind), f"got {out!r} admissible {sorted(expected, key=repr)!r}")]
    return []
