"""Runs the generated program family for C20/C21 and applies the whole-database oracles."""
from __future__ import annotations


def run_chunk(arg):
    from checks import graph_common as G
    from checks.c01 import sig_of
    from engine import evloop, progs

    chunk, bound, want = arg  # want: "C20" or "C21"
    viol = []
    stats = evloop.ExploreStats()
    nrows = 0
    nlinks = 0
    for ast in chunk:
        expected = progs.ref(ast)

        def scenario(prefix, ast=ast, fresh=False):
            env = evloop.Env(prefix)
            observed = []
            key2call = {}
            live = []

            def hook(env_, s):
                orig = s._exec_job_main_thread

                def wrapped(job, eval_args):
                    r = orig(job, eval_args)
                    pid = job.parent_job.id if job.parent_job is not None else None
                    observed.append((job.id, pid, job.task.fullname, job.recording_provenance()))
                    if job.args is not None:
                        a, k = job.args
                        live.append((job, (job.task.fullname, tuple(map(repr, a)), tuple(sorted((kk, repr(v)) for kk, v in k.items())))))
                    return r

                s._exec_job_main_thread = wrapped

            env.hooks.append(hook)
            try:
                o1 = env.run(progs.build(ast))
                if fresh:
                    env.reopen_backend()  # the second execution is another process: a new backend object on the same database
                o2 = env.run(progs.build(ast)) if want == "C20" else None
                for job, key in live:
                    if job.call_hash:
                        key2call.setdefault(key, job.call_hash)
                snap = G.db_snapshot(env.db_path)
                res = {"o1": o1, "o2": o2, "snap": snap, "observed": list(dict.fromkeys(observed)), "key2call": key2call}
                if want == "C20":
                    res["viol"] = G.merkle_violations(snap, res["observed"], env.backend)
                elif o1[0] == "ok":
                    res["viol"] = G.dataflow_violations(ast, snap, key2call, env.backend)
                else:
                    res["viol"] = []
                return env.ctl, res
            finally:
                env.close()

        def on_exec(choices, res, ast=ast, expected=expected):
            nonlocal nrows, nlinks
            if progs.outcome_of(res["o1"]) not in expected:
                return  # C01's business
            nrows += len(res["snap"]["nodes"])
            nlinks += len(res["snap"]["argres"])
            for kind, detail in res["viol"][:3]:
                viol.append((kind, {"ast": ast, "choices": choices, "fresh_backend": fresh_}, f"program {ast!r} schedule {choices}{' (second execution on a new backend object)' if fresh_ else ''}: {detail}"))

        for fresh_ in ((False, True) if want == "C20" else (False,)):
            st = evloop.explore(lambda p, f=fresh_: scenario(p, fresh=f), bound, 10**9, on_exec, selfcheck=(ast is chunk[0]))
            stats.merge(st)
    best = {}
    for sig, case, d in viol:
        if sig not in best:
            best[sig] = (case, d)
    gstats = dict(G.STATS)
    G.STATS.clear()
    return {"gstats": gstats, "viol": [(s, c, d) for s, (c, d) in best.items()], "stats": stats.as_dict(), "states": stats.states, "ntrans": len(stats.transitions),
            "nrows": nrows, "nlinks": nlinks}


def run_property(ctx, prop):
    from engine import progs, seams
    from engine.common import check_harness_errors

    seams.template_db()
    fam = progs.programs(4, rich=ctx.pick(False, True)) + progs.sharp_programs()
    small = progs.programs(3, rich=True)
    work = [(fam[i:i + 30], 0, prop) for i in range(0, len(fam), 30)] + [(small[i:i + 8], ctx.pick(1, 2), prop) for i in range(0, len(small), 8)]
    res = ctx.pmap(run_chunk, ctx.rotate(work), chunksize=1)
    check_harness_errors(res)
    best = {}
    for r in res:
        for sig, case, d in r["viol"]:
            from engine.progs import size

            if sig not in best or size(case["ast"]) < size(best[sig][0]["ast"]):
                best[sig] = (case, d)
    for sig, (case, d) in best.items():
        ctx.violation(sig, case, d)
    states = set().union(*[r["states"] for r in res])
    execs = sum(r["stats"]["executions"] for r in res)
    return {"states": len(states), "transitions": sum(r["ntrans"] for r in res), "traces_validated_against_impl": execs,
            "programs": len(fam), "arguments_checked": sum(r["gstats"].get("arguments_checked", 0) for r in res),
            "arguments_with_required_upstream": sum(r["gstats"].get("arguments_with_required_upstream", 0) for r in res), "call_node_rows_checked": sum(r["nrows"] for r in res), "upstream_links_seen": sum(r["nlinks"] for r in res),
            "exhaustive": True, "samples": [repr(p) for p in fam[50:52]]}
