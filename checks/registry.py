"""Single table of claimed checks; tools/gen_manifest.py turns it into MANIFEST.json."""

ENGINES = [
    {"name": "evloop", "path": "engine/evloop.py", "serves_properties": [],
     "kind_free_text": "controlled event loop for the real Scheduler (interposed executor + events_queue) with stateless "
     "deviation-bounded / full-tree exploration of completion interleavings"},
    {"name": "crash", "path": "engine/crash.py", "serves_properties": [],
     "kind_free_text": "enumeration of every commit point (process death) and every statement (one transient OperationalError) of a "
     "workload on a real SQLite file, followed by consistency queries and recovery runs"},
    {"name": "threads", "path": "engine/threads.py", "serves_properties": [],
     "kind_free_text": "preemption-bounded exploration of real Python threads: sys.monitoring instruction-level scheduling points plus controlled "
     "Lock/Event/Thread/time replacements in the target module, one thread running at a time (semaphore baton)"},
    {"name": "progs", "path": "engine/progs.py", "serves_properties": [],
     "kind_free_text": "exhaustive generator of typed workflow-program ASTs up to a size bound, builder into real redun expressions, "
     "and a reference interpreter returning the set of admissible outcomes"},
    {"name": "opseq", "path": "checks/ (BFS loops in each check)", "serves_properties": [],
     "kind_free_text": "explicit-state BFS over operation histories on the real object against a reference model"},
    {"name": "enum", "path": "checks/ (enumeration loops in each check)", "serves_properties": [],
     "kind_free_text": "bounded-exhaustive enumeration of input shapes with all-pairs / reference-model oracles"},
]

CHECKS = [
    {
        "id": "C14", "engine": "enum", "level": "exploration",
        "technique": "bounded-exhaustive enumeration of structures, all-pairs injectivity oracle",
        "text": "Every structure up to nesting depth 2 over a syntax-probing leaf alphabet is encoded by the real bencode; "
        "encodings are equal iff canonical forms are equal over all pairs, bdecode round-trips, non-encodables are rejected. "
        "Exhaustive under the bound; says nothing about deeper nestings or other leaf values.",
        "note": "Trusts Python's bytes equality and the reference canonical form (str~utf-8 bytes, list~tuple, dict order-free).",
    },
    {
        "id": "C34", "engine": "enum", "level": "exploration",
        "technique": "bounded-exhaustive enumeration of tag values, round-trip oracle",
        "text": "All strings up to length 3/4 over a 14-20 character alphabet chosen from the parser's branch points, JSON look-alikes, "
        "and all JSON containers of depth <=2 over 19 leaves go through the real format_tag_value/parse_tag_value; the round "
        "trip must be type-exact. Exhaustive under the bound.",
        "note": "NaN excluded; strings outside the alphabet are not covered.",
    },
]

_SCHED_NOTE = ("Trusted base: the harness runs task functions itself when a job reports completion; the schedule space is the "
               "position of each completion report in the scheduler's event sequence (scheduler state is main-thread only); "
               "SQLite backend on /dev/shm; ids and clock are replaced by counters.")
CHECKS += [
    {"id": "C06", "engine": "evloop", "level": "model_checking",
     "technique": "stateless exploration of all job-completion interleavings of the real scheduler under a controlled event loop",
     "text": "For 18 sharp driver programs x limits configurations the complete interleaving tree of completion reports is executed on "
     "the real Scheduler; per execution: <=1 executor submission per (eval hash, context hash) unless opted out, and the result equals the reference.",
     "note": _SCHED_NOTE},
    {"id": "C07", "engine": "evloop", "level": "model_checking",
     "technique": "stateless exploration of all completion interleavings x limits configurations, cross-execution equality of result and normalized call graph",
     "text": "Across every explored (schedule, limits configuration) pair of one program the outcome and the normalized call graph "
     "(call nodes, edges, arguments incl. handle hashes) must be identical. Two genuine schedule dependences are listed as known findings.",
     "note": _SCHED_NOTE},
    {"id": "C08", "engine": "evloop", "level": "model_checking",
     "technique": "stateless exploration of all completion interleavings with a state invariant at every choice point",
     "text": "At every choice point of every interleaving: units held by in-flight jobs <= limit, scheduler accounting >= units held; "
     "at the end of every run accounting equals what is still held; one release per job, none for cached/collapsed jobs.",
     "note": _SCHED_NOTE},
    {"id": "C09", "engine": "evloop", "level": "model_checking",
     "technique": "stateless exploration of all completion interleavings, deadlock (quiescent-but-unfinished) detection",
     "text": "No interleaving of the drivers under feasible limits reaches a state with no queued event, nothing in flight and a pending "
     "workflow; returning runs leave no job pending, waiting or in flight.",
     "note": _SCHED_NOTE},
]

CHECKS += [
    {"id": "C01", "engine": "progs", "level": "model_checking",
     "technique": "exhaustive enumeration of program ASTs up to a size bound, each executed on the real scheduler under a controlled event loop "
     "(default schedule + all schedules within a deviation bound) and compared with a reference interpreter",
     "text": "All ~9.8k typed programs of size <=4 (quick; thorough adds 29k of size 5) are run on the real Scheduler; the outcome must lie in the "
     "reference interpreter's admissible set. Programs of size <=3 are run under every schedule with <=1 (quick) / <=2 (thorough) deviations, and "
     "the small family on the real LocalExecutor with thread and process assignments.",
     "note": _SCHED_NOTE + " Thread/process legs take pool timing as it comes; async mode is not driven."},
    {"id": "C13", "engine": "opseq", "level": "model_checking",
     "technique": "explicit-state BFS over all promise operation histories up to a depth bound against a reference model",
     "text": "All histories of <=4 (quick) / <=5 (thorough) operations over a 31-operation alphabet (resolve/reject, then with returning, raising, "
     "promise-returning, re-entrantly settling and re-registering callbacks, Promise.all, wait_promises) are replayed on the real Promise "
     "and on a reference model; callback log and all promise states are compared after every operation.",
     "note": "The reference model (synchronous delivery, per-promise FIFO) is the trusted base; values are compared by repr."},
]

_CRASH_NOTE = ("Trusted base: SQLite transaction atomicity (torn pages out of scope); a crash is a BaseException raised in the engine's commit "
               "hook after which the session is discarded and the file reopened; faults are sqlite3.OperationalError raised from do_execute; "
               "default completion schedule.")
CHECKS += [
    {"id": "C22", "engine": "crash", "level": "fault_enumeration",
     "technique": "exhaustive crash-point and single/double transient-fault enumeration on the real SQLite backend",
     "text": "For 3 (quick) / 5 (thorough) workloads: crash before every commit point and one OperationalError at every statement "
     "(thorough: every pair p,p+1 and p,p+2); after each, referential-consistency queries, recovery runs of the same and of every "
     "single-task-edited program compared with an empty backend, and completeness of every record that is present.",
     "note": _CRASH_NOTE},
    {"id": "C03", "engine": "crash", "level": "fault_enumeration",
     "technique": "exhaustive crash-point / transient-fault enumeration plus record transfer, each followed by every single-task edit and a shallow run",
     "text": "A check_valid=shallow workflow is first executed cleanly, crashed before every commit, hit by a fault at every statement, or its "
     "records are transferred to an empty repository; then each task of the subtree is edited and the shallow run must equal the "
     "empty-backend result; the subtree-task state invariant is checked on every database produced.",
     "note": _CRASH_NOTE},
]

CHECKS += [
    {"id": "C15", "engine": "enum", "level": "exploration",
     "technique": "bounded-exhaustive enumeration of task signatures x config_args subsets x calls, all-pairs key/identity oracle",
     "text": "All 262 (parameter-kind sequence of <=3 parameters, config_args subset) combinations, every call over values {0,1} with positional/"
     "keyword passing, omitted/explicit defaults, variadic extras and extra keywords in both orders, through the scheduler's own default merge; "
     "eval_hash equal <=> bound non-config arguments equal over all pairs; JobInfo placeholders, task-hash sensitivity, distinct type tags.",
     "note": "Trusts inspect.signature binding as the reference; argument values only from {0,1,5,6}."},
    {"id": "C17", "engine": "enum", "level": "exploration",
     "technique": "bounded-exhaustive enumeration of task definitions (full product of mutation dimensions), all-pairs hash/identity oracle",
     "text": "Full product of name, namespace, body, version, hash_includes (incl. reordered), definition-time options and an extra decorator line, "
     "each with 3 call-time option sets and 3 partial bindings, defined in real module files; plus wraps_task wrappers; hash equal <=> code identity equal.",
     "note": "Under a fixed version only one body is enumerated."},
    {"id": "C18", "engine": "enum", "level": "exploration",
     "technique": "bounded-exhaustive enumeration of expressions, all-pairs hash/identity oracle plus pickle round trip",
     "text": "All Task/Scheduler/Simple/Value expressions over small name, argument, keyword, option and export-option alphabets; hash equal <=> "
     "(kind, name, args, options, exported) equal over all pairs; pickling keeps hash/args/options and resets call_hash and _upstreams.",
     "note": "Argument alphabet includes nested expressions that differ only in their options."},
    {"id": "C19", "engine": "enum", "level": "exploration",
     "technique": "bounded-exhaustive enumeration of nested values against a reference traversal; scheduler evaluation of nested expressions",
     "text": "All nestings of depth <=2 over list, tuple, namedtuple, set, dict (keys too), plain/frozen dataclasses with and without non-init fields; "
     "map_nested_value equals a reference rebuild type-exactly, visited leaves equal iter_nested_value's leaves, Scheduler.run replaces nested expressions.",
     "note": "Leaves {1,'a',expression}; frozensets and container subclasses are leaves by design."},
    {"id": "C37", "engine": "opseq", "level": "model_checking",
     "technique": "explicit-state BFS over define/redefine/wrap histories on the real TaskRegistry with state invariants",
     "text": "All histories of <=4 (quick) / <=7 (thorough) operations over define (2 names x 2 bodies), wrap (2 wrappers, repeated = double wrap) and a "
     "third task, on a fresh registry swapped in for the global one; invariants after every operation.",
     "note": "Stored task hashes are taken as they are (a renamed inner task keeps the hash computed under its old name; not part of the statement)."},
]

CHECKS += [
    {"id": "C16", "engine": "enum", "level": "exploration",
     "technique": "bounded-exhaustive enumeration of values x insertion orders, hashed in fresh processes per hash seed until all iteration orders were observed",
     "text": "A value family of depth <=2 (scalars, containers, every non-empty subset of 5 element alphabets as set/frozenset in every insertion "
     "order, bare and nested in 8 container positions) is hashed in fresh interpreters, one per PYTHONHASHSEED, adding seeds until all 3! "
     "iteration orders of a 3-string set have been seen; one hash per abstract value. Nested sets are a known finding.",
     "note": "Exhaustiveness claim = all iteration orders of <=3-element string sets observed, not the seed range."},
    {"id": "C35", "engine": "enum", "level": "exploration",
     "technique": "bounded-exhaustive enumeration of INI configurations, round-trip oracle",
     "text": "All subsets of <=3 sections from 5 (dotted up to depth 3) x pairs of 15 value kinds (escaped dollars, interpolation, config-dir paths, "
     "special characters) go through get_config_dict and Config(config_dict=...); section paths and effective values must be equal; "
     "replace_config_dir must change exactly the values containing the local config dir.",
     "note": "Only texts the loader accepts and whose original values can be read; a section is never mixed with its own sub-section."},
]

CHECKS += [
    {"id": "C24", "engine": "opseq", "level": "model_checking",
     "technique": "level-synchronous explicit-state BFS over tag command histories on real SQLite files against a reference multimap",
     "text": "All histories of <=3 (quick) / <=4 (thorough) `redun tag add|update|rm` commands, executed by the real command handlers, over two "
     "entities, two keys, 3-4 JSON values incl. multi-pair and key-only forms; a state is a database file, merged when tag and tag_edit tables "
     "are equal; current tags of every entity equal the reference model as a set; the edit graph is acyclic.",
     "note": "Multiplicity of a current pair is not compared; entities are Value records."},
    {"id": "C25", "engine": "opseq", "level": "model_checking",
     "technique": "level-synchronous explicit-state BFS over handle advance/merge/rollback histories on real SQLite files against a lineage model; "
     "exhaustive edit/revert histories of a handle pipeline",
     "text": "All well-formed histories of <=4 (quick) / <=5 (thorough) backend operations (fork, call, merge, rollback) on handle states up to "
     "derivation depth 3; is_valid_handle of every known state equals the reference lineage model after every operation. Plus all 4^L "
     "body histories (L=3/4) of a two-stage handle pipeline: stages whose incoming state was invalidated run again, result hashes equal a fresh backend's.",
     "note": "Well-formed = advance only from valid or new states, rollback only to valid states (what the scheduler does)."},
]

CHECKS += [
    {"id": "C26", "engine": "evloop", "level": "exploration",
     "technique": "bounded-exhaustive enumeration of job chains x override dicts x configured/run contexts on the real scheduler, reference deep-merge oracle",
     "text": "All chains of 3 nested jobs with update_context overrides from 7 (quick) / 9 (thorough) dicts, x configured context x run(context=); "
     "at the leaf 18 dotted paths (incl. missing, non-mapping, too deep) are read through get_context in the body and through expression-valued "
     "default arguments and compared with a reference deep merge + path lookup.",
     "note": _SCHED_NOTE},
    {"id": "C27", "engine": "evloop", "level": "exploration",
     "technique": "bounded-exhaustive enumeration of job chains x option placements on the real scheduler, options observed by an interposed executor",
     "text": "All chains of 3 jobs where each level sets option k at definition time (plain/exported) and/or call time (options, export_options, "
     "expression-valued); the options each job is submitted with must equal the documented precedence; plus scheduler-imposed cache scope "
     "(run(cache=False)) and prov=False ancestors.",
     "note": _SCHED_NOTE},
]

CHECKS += [
    {"id": "C05", "engine": "evloop", "level": "model_checking",
     "technique": "stateless exploration of all completion interleavings of context-mixing programs (one or several executions per backend)",
     "text": "All ordered pairs (thorough: triples) of calls mid(1) under contexts {none, A, B}, sequenced, concurrent or split over executions, "
     "check_valid full and shallow, under the full interleaving tree; every call must return the value of its own effective context.",
     "note": _SCHED_NOTE},
]

CHECKS += [
    {"id": "C02", "engine": "opseq", "level": "model_checking",
     "technique": "exhaustive DFS over edit/argument/file histories with a database snapshot per history prefix, differential oracle against an empty backend",
     "text": "For 4 (quick) / 6 (thorough) program shapes every history of 3 (quick) / 4 (thorough) actions (set any task to any body incl. reverts, "
     "publish a body under a new version, change the argument, rewrite the input file), each followed by a run on the shared backend; every "
     "run's value or error must equal the same configuration run on an empty backend. The catch-cache staleness is a known finding.",
     "note": _SCHED_NOTE + " File identity = (path, size, mtime); rewrites change both."},
]

CHECKS += [
    {"id": "C12", "engine": "progs", "level": "model_checking",
     "technique": "exhaustive enumeration of failing programs, each executed twice on one backend under a controlled event loop (default schedule + bounded deviations)",
     "text": "Every generated program of size <=4 that can fail is executed twice on one backend; the outcome must be admissible, the root job and the "
     "failing job with all its ancestors must be recorded with an ErrorValue result, and the failing task function must run again in the second execution.",
     "note": _SCHED_NOTE},
    {"id": "C20", "engine": "progs", "level": "model_checking",
     "technique": "exhaustive enumeration of programs executed (twice) under a controlled event loop, whole-database Merkle / job-tree / value-key oracle",
     "text": "Every generated program of size <=4 (+ sharp shapes) is run twice on one backend; over all rows: call hashes equal the Merkle hash of task, "
     "args, result and recorded children; recorded children equal the finished child jobs' nodes; job tree and execution roots mirror the jobs "
     "the scheduler created; every value deserializes to a value hashing to its key.",
     "note": _SCHED_NOTE + " Tag placement is not yet part of the oracle."},
    {"id": "C21", "engine": "progs", "level": "model_checking",
     "technique": "exhaustive enumeration of programs under a controlled event loop, per-argument upstream-link oracle derived from the program AST",
     "text": "For every evaluated task call site of every succeeding generated program: one Argument row per parameter with the value the task "
     "received (defaults by key), and required <= recorded <= allowed upstream call nodes, derived from the AST through task calls, lazy "
     "operators, getitem, nout, containers and cond.",
     "note": _SCHED_NOTE + " Call nodes used by more than one job and arguments built from catch/map_/apply_func are only checked for row presence and value."},
]

CHECKS += [
    {"id": "C04", "engine": "opseq", "level": "model_checking",
     "technique": "exhaustive enumeration of external-change histories per file value class, each followed by a run on the shared backend",
     "text": "For each of the 9 file value classes (bare or nested) every history of 2 (quick) / 3 (thorough) external changes, each followed by a run "
     "of a task that writes and returns the value; the run must not raise, the task re-executes iff the class is mutable and the current hash "
     "differs from the recorded one, and the returned value describes the current filesystem state.",
     "note": _SCHED_NOTE + " Local filesystem only."},
    {"id": "C28", "engine": "opseq", "level": "model_checking",
     "technique": "exhaustive enumeration of backend histories; differential dry run vs real run on copies of each reached backend state",
     "text": "Backend states reached by every history of <=2 (quick) / <=3 (thorough) edit/argument/file actions with real runs in between; in each, the "
     "next configuration is run dry and for real on two copies: the dry run submits nothing and calls no task function, equals the real run if it "
     "completes, and the real run executes something if the dry run stopped.",
     "note": _SCHED_NOTE},
    {"id": "C30", "engine": "opseq", "level": "model_checking",
     "technique": "exhaustive enumeration of file-operation histories on a real filesystem with invariants after every operation",
     "text": "For 3 file classes and 6 directory/file-set classes all histories of 3 (quick) / 4 (thorough) operations (redun-mediated and external "
     "writes, appends, copies, removals, touches, mkdir/rmdir, Dir.copy_to); hashing never raises and is deterministic, mediated writes leave the "
     "fresh hash, is_valid <=> recorded == current, content hashes follow bytes.",
     "note": "Local filesystem; writes always use a new size, touches explicit logical times."},
]

CHECKS += [
    {"id": "C31", "engine": "opseq", "level": "model_checking",
     "technique": "exhaustive enumeration of record/get/delete-bytes/reopen histories per backend configuration against a reference dict",
     "text": "For 6 configurations (value-store threshold, max value size) all histories of 3 (quick) / 4 (thorough) operations over 6 values "
     "straddling the thresholds, incl. a FileCache-typed value: a recorded value reads back with its hash, reads as absent after its offloaded "
     "bytes were removed (never as another value), oversize values are rejected.",
     "note": "Local value store; backend reopened with the same configuration."},
    {"id": "C33", "engine": "enum", "level": "exploration",
     "technique": "exhaustive comparison of status filters with displayed statuses over databases produced by real runs incl. a crash at every commit point",
     "text": "50 (quick) / 75 (thorough) databases from real runs - done, cached, failed, caught, CSE-collapsed failing and done twins, nested "
     "failures, and a workload crashed before every commit point (optionally followed by a recovery run); for each and every status the job and "
     "execution filters must return exactly the rows displaying that status.",
     "note": "Only row shapes reachable by real runs."},
]

CHECKS += [
    {"id": "C36", "engine": "enum", "level": "exploration",
     "technique": "exhaustive enumeration of (start schema version x generated population), upgrade to head, row-preservation oracle",
     "text": "Each of the 11 historical schema versions x 5 populations generated from the reflected schema is upgraded to head by load(); every "
     "(table, primary key) must survive with equal values in the shared columns (timestamps as instants, NULL backfills allowed) and a workflow "
     "run twice on the upgraded file must succeed with the second run cached.",
     "note": "SQLite only, TZ=UTC; populations are FK-consistent synthetic rows, not real historical data."},
]

CHECKS += [
    {"id": "C29", "engine": "enum", "level": "exploration",
     "technique": "bounded-exhaustive enumeration of command texts executed through the real heredoc wrapper by bash; staging shapes through the scheduler",
     "text": "Every self-printing command text (shebang /bin/cat or cat $0 under the default shell) followed by every sequence of <=2 (quick) / <=3 "
     "(thorough) lines chosen against the heredoc, plain and indented: the script file the wrapper writes must equal the reference-prepared "
     "command byte for byte, the terminator never equals a line, default shell iff no shebang; plus script() for 7 output shapes x 0-2 staged inputs.",
     "note": "Uses the system's bash and cat; local staging only."},
]

CHECKS += [
    {"id": "C11", "engine": "threads", "level": "model_checking",
     "technique": "preemption-bounded (CHESS-style) exploration of real threads at bytecode-instruction scheduling points",
     "text": "18 harnesses around the real JobArrayer and its real monitor thread (1-2 adder threads, 1-2 descriptions, three size bounds) are "
     "explored under every schedule with <=1 preemption (quick; the three smallest also <=2) / <=2 preemptions (thorough) at instruction-level "
     "points; on_error never called, every job in exactly one legal batch, num_pending exact, no deadlock.",
     "note": "GIL bytecode interleaving is the memory model; threading/time are replaced in redun.job_array's namespace; jobs are stand-ins. "
     "The 'randomized stress' clause of the property is sampling and is not implemented."},
]

CHECKS += [
    {"id": "C10", "engine": "threads", "level": "model_checking",
     "technique": "preemption-bounded exploration of real threads at bytecode-instruction scheduling points",
     "text": "A scheduler thread submitting 2 (thorough: 3) jobs against the real _start/_monitor/stop/_submit code of the DockerExecutor, the "
     "AWSBatchExecutor (with and without the job arrayer's thread), the AWSGlueExecutor (monitor + submission thread), the K8SExecutor and the GCPBatchExecutor "
     "running in real threads, container / Batch / Glue / Kubernetes / GCP API faked in-process; every schedule "
     "with <=2 / <=1 (quick) or <=3 / <=2 (thorough) preemptions; when the monitor thread has ended every submitted job must have been reported "
     "exactly once. The lost-job race is a known finding for all five executors.",
     "note": "K8S and GCP Batch are harnessed without job arrays. GIL bytecode interleaving is the memory model."},
]

CHECKS += [
    {"id": "C38", "engine": "enum", "level": "exploration",
     "technique": "bounded-exhaustive enumeration of generated programs x subrun configurations on the real scheduler, reference-interpreter oracle",
     "text": "Every generated program of size <=2 (quick) / <=3 (thorough) plus 4 larger shapes, run as subrun(e, executor='default') twice on one "
     "SQLite repository for (new_execution, cache, check_valid) configurations; both runs equal the reference interpreter; the sub-scheduler "
     "body runs exactly once in run 1 and again in run 2 whenever only CSE/ultimate hits could not apply; with new_execution=False the job tree "
     "has exactly the two top-level executions and every job chains to its execution root.",
     "note": "The sub-scheduler needs its own thread: programs and configurations are enumerated exhaustively, completion timing is not controlled."},
    {"id": "C32", "engine": "enum", "level": "exploration",
     "technique": "bounded-exhaustive enumeration of call-sets, arrays x indices, attempt histories (explicit scratch-file states vs reference model), "
     "job names, and two-session reunite scenarios against an in-process fake of the Batch API running the real oneshot entry point",
     "text": "All call-sets from a value alphabet x cache flag as single jobs; every array of <=3 elements x every index (each index environment variable); "
     "every ok/fail attempt history of length <=4 (quick) / <=6 (thorough) on one scratch directory; 10 prefixes x 9 hashes x array flag; every "
     "ordered subset of 3 evaluations x single/array grouping x finished-subset x resubmitted-subset x job-name prefixes through the real "
     "AWSBatchExecutor submit / gather_inflight_jobs / process-status code.",
     "note": "oneshot runs in-process rather than in a container; the Batch API is a fake; monitor/arrayer threads are covered by C10/C11, not here."},
]

CHECKS += [
    {"id": "C23", "engine": "opseq", "level": "model_checking",
     "technique": "explicit-state exploration of repository histories (runs, CLI tag commands) x root selections x transfer methods through the real CLI, "
     "against a reference closure computed from raw SQL dumps; two-repository convergence; post-transfer cache differential",
     "text": "Every source history of <=2 (quick) / <=3 (thorough) steps over 7 run kinds and 4 tag commands x root selection (all, each execution, "
     "pairs, child job, call node, value) x push / pull / export+import: destination rows equal the harness's reference closure of the source, tag "
     "currentness structural, foreign keys clean, repeat adds nothing; pairs of repositories synchronised in both orders converge to the union; after a "
     "full transfer every next configuration returns the ground truth and runs at least the functions the source runs.",
     "note": "SQLite only; handles, the evaluation table and Execution.updated_time are not transferred records; child order is compared as order, not as stored number."},
]

_ALL = [f"C{i:02d}" for i in range(1, 39)]
_claimed = {c["id"] for c in CHECKS}
_REASONS = {}
NOT_APPLICABLE = [
    {"property_id": p, "reason": _REASONS.get(p, "check not built yet in this session (planned in DESIGN.md §3); not claimed until it runs")}
    for p in _ALL if p not in _claimed
]
for e in ENGINES:
    e["serves_properties"] = [c["id"] for c in CHECKS if c["engine"] == e["name"]]
