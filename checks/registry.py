"""Single table of claimed checks; tools/gen_manifest.py turns it into MANIFEST.json."""

ENGINES = [
    {"name": "enum", "path": "checks/ (enumeration loops in each check)", "serves_properties": [],
     "kind_free_text": "bounded-exhaustive enumeration of input shapes with all-pairs / reference-model oracles"},
]

CHECKS = [
    {
        "id": "C14", "engine": "enum", "level": "exploration",
        "technique": "bounded-exhaustive enumeration of structures, all-pairs injectivity oracle",
        "text": "Every structure up to nesting depth 2 over a syntax-probing leaf alphabet is encoded by the real bencode; "
        "encodings are equal iff canonical forms are equal over all pairs, bdecode round-trips, non-encodables are rejected. "
        "Exhaustive under the bound; says nothing about deeper nestings or other leaf values.",
        "note": "Trusts Python's bytes equality and the reference canonical form (str~utf-8 bytes, list~tuple, dict order-free).",
    },
    {
        "id": "C34", "engine": "enum", "level": "exploration",
        "technique": "bounded-exhaustive enumeration of tag values, round-trip oracle",
        "text": "All strings up to length 3/4 over a 14-20 character alphabet chosen from the parser's branch points, JSON look-alikes, "
        "and all JSON containers of depth <=2 over 19 leaves go through the real format_tag_value/parse_tag_value; the round "
        "trip must be type-exact. Exhaustive under the bound.",
        "note": "NaN excluded; strings outside the alphabet are not covered.",
    },
]

_ALL = [f"C{i:02d}" for i in range(1, 39)]
_claimed = {c["id"] for c in CHECKS}
_REASONS = {}
NOT_APPLICABLE = [
    {"property_id": p, "reason": _REASONS.get(p, "check not built yet in this session (planned in DESIGN.md §3); not claimed until it runs")}
    for p in _ALL if p not in _claimed
]
for e in ENGINES:
    e["serves_properties"] = [c["id"] for c in CHECKS if c["engine"] == e["name"]]
