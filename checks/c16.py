"""C16 — value hashes depend only on the value: identical across interpreter processes / hash seeds / insertion orders."""
from __future__ import annotations

import json
import os
import subprocess
import sys
from collections import defaultdict

LEVEL = "exploration"
WORKER = os.path.join(os.path.dirname(os.path.dirname(os.path.abspath(__file__))), "tools", "c16_worker.py")


def run_seed(seed):
    direction = "fwd"
    if isinstance(seed, tuple):
        seed, direction = seed
    env = dict(os.environ)
    env["PYTHONHASHSEED"] = str(seed)
    env["VERIF_KEEP_HASHSEED"] = "1"
    p = subprocess.run([sys.executable, WORKER, os.path.dirname(os.path.dirname(os.path.abspath(__import__("redun").__file__))), direction], env=env, capture_output=True, text=True, timeout=300)
    if p.returncode != 0:
        raise RuntimeError(f"worker seed {seed} failed: {p.stderr[-2000:]}")
    return (seed if direction == "fwd" else f"{seed}/reverse-order"), json.loads(p.stdout)


def run(ctx):
    from engine.common import check_harness_errors

    seeds_done = []
    backend_diff: dict = {}
    rows = []
    orders = set()
    batch = 0
    max_seeds = ctx.pick(32, 96)
    target = 6  # all 3! iteration orders of the 3-element string set
    while (len(orders) < target or len(seeds_done) < ctx.pick(8, 24)) and len(seeds_done) < max_seeds:
        seeds = list(range(batch * 8 + ctx.seed * 1000, batch * 8 + 8 + ctx.seed * 1000))
        res = ctx.pmap(run_seed, seeds + ([(s_, "rev") for s_ in seeds[:4]] if batch == 0 else []), chunksize=1)
        check_harness_errors(res)
        for seed, out in res:
            seeds_done.append(seed)
            for vid, var, h, it, hb in out:
                rows.append((vid, var, seed, h))
                if hb != h and not h.startswith("ERR"):
                    backend_diff.setdefault(vid.split(":")[0], (vid, var, seed, h, hb))
                if it is not None:
                    orders.add(it)
        batch += 1
    for kind_, (vid, var, seed, h, hb) in backend_diff.items():
        ctx.violation(f"recorded-under-another-hash:{kind_}", {"value": vid, "variant": var, "seed": seed},
                      f"{vid} (insertion order {var}, seed {seed}): value hash {h[:8]}, but the backend would record it under {hb[:8]} (get_hash(data=serialize()))")
    by_val = defaultdict(lambda: defaultdict(list))
    for vid, var, seed, h in rows:
        by_val[vid][h].append((var, seed))
    nviol = 0
    for vid, hs in by_val.items():
        kind = vid.split(":")[0]
        alpha = vid.split(":")[1] if ":" in vid else ""
        elems = {"s3": "str", "s2": "str", "f2": "str", "i3": "int", "m2": "mixed", "tA": "twins", "tB": "twins", "tC": "twins"}.get(alpha, alpha)
        if any(h.startswith("ERR") for h in hs):
            err = next(h for h in hs if h.startswith("ERR"))
            ctx.violation(f"cannot-hash:{kind}:{elems}:{err}", {"value": vid}, f"{vid}: get_hash raised {err}")
            continue
        if len(hs) > 1:
            nviol += 1
            ex = {h[:8]: v[:2] for h, v in list(hs.items())[:3]}
            nested = "nested-frozenset" if "frozenset" in kind and kind != "frozenset" else ("nested-set" if kind not in ("set", "frozenset") and "set" in kind else kind)
            ctx.violation(f"hash-varies:{nested}:{elems}", {"value": vid, "examples": ex},
                          f"{vid}: {len(hs)} different hashes across insertion orders / hash seeds, e.g. (variant, seed) {ex}")
    exhaustive = len(orders) >= target
    return {"coverage": {
        "evaluations": len(rows),
        "distinct_nontrivial": len(by_val),
        "hash_seeds": len(seeds_done),
        "iteration_orders_of_3_string_set_observed": sorted(orders),
        "exhaustive": exhaustive,
        "rule": "value family of depth <=2 (scalars; list/tuple/dict/dataclass wrappers; every non-empty subset of "
        "5 element alphabets as set and frozenset built in EVERY insertion order, bare and nested in list/tuple/dict value/dict key/dataclass/set/"
        "list-of-list) hashed in fresh interpreter processes, one per PYTHONHASHSEED; seeds are added until all 3! iteration orders of a 3-string "
        "set have been observed (that, not the seed count, is the exhaustiveness claim); oracle: one hash per abstract value; distinct = abstract values",
        "samples": [rows[0][:2], rows[len(rows) // 2][:2]],
    }, "assumptions": ["int elements 0/8/16 collide in an 8-slot table so that insertion order changes iteration order for ints as well"]}
