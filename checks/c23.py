"""C23 — record transfer between repositories (push / pull / export+import, driven through the real CLI) preserves the call graph.

Explicit-state exploration of repository histories: a source repository is reached by every sequence (bounded length) of
workflow executions (chains with edits, caught and uncaught failures, File values, applied tags, prov=False subtrees) and `redun
tag add|update|rm` commands.  In every such state, for every root selection and every transfer method:

* the destination (empty before) holds exactly the rows of a reference closure computed by the harness from a raw SQL dump of
  the source (ownership edges as the property states them), with tag currentness = "has no child edit";
* PRAGMA foreign_key_check is clean; repeating the transfer adds nothing;
* two repositories with different histories, synchronised in both directions, converge to the same reachable record set
  (the union), whatever the order;
* after a full transfer, every next configuration (edits, arguments, file changes) run on the destination gives the ground-truth
  result and executes at least the task functions the source executes (the destination cache never serves what the source refuses).
"""
from __future__ import annotations

import gc
import io
import itertools
import os
import shutil
import sqlite3

LEVEL = "model_checking"

# ------------------------------------------------------------------------------------------------ raw dumps and reference closure
TABLES = {
    "execution": "select id, args, job_id from execution",
    "job": "select id, start_time, end_time, task_hash, cached, call_hash, parent_id, execution_id from job",
    "call_node": "select call_hash, task_name, task_hash, args_hash, value_hash, timestamp from call_node",
    "call_edge": "select parent_id, child_id, call_order from call_edge",
    "argument": "select arg_hash, call_hash, value_hash, arg_position, arg_key from argument",
    "argument_result": "select arg_hash, result_call_hash from argument_result",
    "call_subtree_task": "select call_hash, task_hash from call_subtree_task",
    "value": "select value_hash, type, format, value from value",
    "subvalue": "select value_hash, parent_value_hash from subvalue",
    "file": "select value_hash, path from file",
    "task": "select hash, name, namespace, source from task",
    "tag": "select tag_hash, entity_type, entity_id, key, value from tag",
    "tag_edit": "select parent_id, child_id from tag_edit",
}


def raw_dump(db):
    con = sqlite3.connect(db)
    try:
        d = {t: set(con.execute(q).fetchall()) for t, q in TABLES.items()}
        # child order, not the stored number, is what a transfer has to preserve (edges to unrecorded children leave gaps in the numbering)
        by_parent = {}
        for p_, c_, o_ in sorted(d["call_edge"], key=lambda r: (r[0], r[2], r[1])):
            by_parent.setdefault(p_, []).append(c_)
        d["call_edge"] = {(p_, c_, i) for p_, cs in by_parent.items() for i, c_ in enumerate(cs)}
        d["current"] = {r[0] for r in con.execute("select tag_hash from tag where is_current").fetchall()}
        d["fk"] = con.execute("PRAGMA foreign_key_check").fetchall()
        return d
    finally:
        con.close()


def closure(D, roots):
    """Reference: rows owned by the records reachable from `roots` (ids of executions, jobs, call nodes, values or tags)."""
    from collections import defaultdict

    execs = {r[0]: r for r in D["execution"]}
    jobs = {r[0]: r for r in D["job"]}
    nodes = {r[0]: r for r in D["call_node"]}
    values = {r[0]: r for r in D["value"]}
    tags = {r[0]: r for r in D["tag"]}
    kids = defaultdict(list)
    for r in D["job"]:
        if r[6] is not None:
            kids[r[6]].append(r[0])
    args_of = defaultdict(list)
    for r in D["argument"]:
        args_of[r[1]].append(r)
    ups_of = defaultdict(list)
    for r in D["argument_result"]:
        ups_of[r[0]].append(r)
    edges_of = defaultdict(list)
    for r in D["call_edge"]:
        edges_of[r[0]].append(r)
    sub_tasks = defaultdict(list)
    for r in D["call_subtree_task"]:
        sub_tasks[r[0]].append(r)
    subs = defaultdict(list)
    for r in D["subvalue"]:
        subs[r[1]].append(r)
    files = {r[0]: r for r in D["file"]}
    tasks = {r[0]: r for r in D["task"]}
    tags_of = defaultdict(list)
    for r in D["tag"]:
        tags_of[r[2]].append(r[0])
    tparents, tchildren = defaultdict(list), defaultdict(list)
    for p, c in D["tag_edit"]:
        tparents[c].append(p)
        tchildren[p].append(c)

    out = {t: set() for t in TABLES}
    seen = set()
    todo = [("any", r) for r in roots]
    while todo:
        kind, rid = todo.pop()
        if rid is None:
            continue
        if kind == "any":
            kind = "execution" if rid in execs else "job" if rid in jobs else "call_node" if rid in nodes else "value" if rid in values else "tag" if rid in tags else None
            if kind is None:
                continue
        if (kind, rid) in seen:
            continue
        seen.add((kind, rid))
        if kind == "execution" and rid in execs:
            out["execution"].add(execs[rid])
            todo.append(("job", execs[rid][2]))
        elif kind == "job" and rid in jobs:
            j = jobs[rid]
            out["job"].add(j)
            todo += [("value", j[3]), ("call_node", j[5])] + [("job", k) for k in kids[rid]]
        elif kind == "call_node" and rid in nodes:
            n = nodes[rid]
            out["call_node"].add(n)
            todo += [("value", n[2]), ("value", n[4])]
            for a in args_of[rid]:
                out["argument"].add(a)
                todo.append(("value", a[2]))
                for u in ups_of[a[0]]:
                    out["argument_result"].add(u)
                    todo.append(("call_node", u[1]))
            for e in edges_of[rid]:
                out["call_edge"].add(e)
                todo.append(("call_node", e[1]))
            for s in sub_tasks[rid]:
                out["call_subtree_task"].add(s)
                todo.append(("value", s[1]))
        elif kind == "value" and rid in values:
            out["value"].add(values[rid])
            if rid in files:
                out["file"].add(files[rid])
            if rid in tasks:
                out["task"].add(tasks[rid])
            for s in subs[rid]:
                out["subvalue"].add(s)
                todo.append(("value", s[0]))
        elif kind == "tag" and rid in tags:
            out["tag"].add(tags[rid])
            for p in tparents[rid]:
                out["tag_edit"].add((p, rid))
                todo.append(("tag", p))
            for c in tchildren[rid]:
                todo.append(("tag", c))
        else:
            continue
        for t in tags_of.get(rid, []):
            todo.append(("tag", t))
    return out


def expected_after(before, add):
    """Destination rows after receiving `add` (a closure): set union per table; a tag is current iff it has no child edit."""
    exp = {t: set(before[t]) | set(add[t]) for t in TABLES}
    parents = {p for p, _c in exp["tag_edit"]}
    exp["current"] = {r[0] for r in exp["tag"] if r[0] not in parents}
    return exp


def diff(exp, got):
    out = {}
    for t in list(TABLES) + ["current"]:
        miss, extra = exp[t] - got[t], got[t] - exp[t]
        if miss or extra:
            out[t] = {"missing": len(miss), "unexpected": len(extra), "example": repr(sorted(miss or extra, key=repr)[0])[:200]}
    return out


# ------------------------------------------------------------------------------------------------ repositories and the CLI
class Repo:
    def __init__(self, root, name):
        from engine import seams

        self.dir = os.path.join(root, name, ".redun")
        os.makedirs(self.dir)
        self.db = os.path.join(root, name, "redun.db")
        shutil.copyfile(seams.template_db(), self.db)
        self.name = name

    def configure(self, others):
        with open(os.path.join(self.dir, "redun.ini"), "w") as f:
            f.write(f"[backend]\ndb_uri = sqlite:///{self.db}\nautomigrate = False\n")
            for o in others:
                f.write(f"\n[repos.{o.name}]\nconfig_dir = {o.dir}\n")

    def reset(self):
        from engine import seams

        shutil.copyfile(seams.template_db(), self.db)

    def load(self, src):
        shutil.copyfile(src, self.db)


_ncli = [0]


def cli(repo, *argv):
    from redun.cli import RedunClient

    c = RedunClient()
    c.stdout = io.StringIO()
    try:
        c.execute(["redun", "--config", repo.dir] + list(argv))
    finally:
        sch = getattr(c, "scheduler", None)
        if sch is not None and getattr(sch, "backend", None) is not None and getattr(sch.backend, "engine", None) is not None:
            try:
                sch.backend.session.close()
                sch.backend.engine.dispose()
            except Exception:  # noqa: BLE001
                pass
        _ncli[0] += 1
        if _ncli[0] % 50 == 0:
            gc.collect()
    return c.stdout.getvalue()


def transfer(method, src, dst, roots, scratch):
    """One transfer of `roots` (None = everything) from src to dst; returns the CLI's report."""
    ids = list(roots or [])
    if method == "push":
        return cli(src, "push", dst.name, *ids)
    if method == "pull":
        return cli(dst, "pull", src.name, *ids)
    f = os.path.join(scratch, "export.json")
    cli(src, "export", "--file", f, *ids)
    out = cli(dst, "import", "--file", f)
    os.remove(f)
    return out


# ------------------------------------------------------------------------------------------------ histories
RUNS = ["chain", "chain-edit", "guard", "fail", "file", "tags", "noprov", "multi"]
TAGOPS = ["tag-add-exec", "tag-update-exec", "tag-rm-exec", "tag-add-value"]


def do_step(repo, step, k, fpath):
    """Apply one history step to the repository (k = position in the history, used as id salt)."""
    import wf.editable as E
    from checks import c02, c20_tags
    from engine import crash

    XT = [("k", 0)]  # every execution starts with a tag k=0, so that update / rm commands always supersede something
    if step in RUNS:
        noprov_opts = {"mid": {"prov": False}} if step == "noprov" else None
        bodies = {"leaf": 1} if step == "chain-edit" else {}
        E.define_all(bodies, noprov_opts)
        if step in ("chain", "chain-edit", "noprov"):
            wl = lambda env: [env.run(E.T("top")(1), tags=XT)]  # noqa: E731
        elif step == "multi":
            # one argument assembled from two task results (two upstream call nodes), one through a cond
            from checks import c21_legs

            R = c21_legs.replay_tasks(0)
            wl = lambda env: [env.run(R["outer"]("list"), tags=XT), env.run(R["outer"]("kw-cond"), tags=XT)]  # noqa: E731
        elif step == "guard":
            wl = lambda env: [env.run(E.T("guard")(1), tags=XT)]  # noqa: E731
        elif step == "fail":
            wl = lambda env: [env.run(E.T("boom")(1), tags=XT)]  # noqa: E731
        elif step == "file":
            c02.write_file(fpath, 0)
            wl = lambda env: [env.run(E.T("fmain")(fpath), tags=XT)]  # noqa: E731
        else:
            REG = c20_tags.make_tasks(False)
            wl = lambda env: [env.run(REG["main"](["step", "val-tag", "job-tag", "exec-tag", "inline-val"]), tags=[("run", "r")] + XT)]  # noqa: E731
        crash.run_workload(wl, repo.db, id_salt=k + 1)
        return
    con = sqlite3.connect(repo.db)
    try:
        ex, root_job = con.execute("select e.id, e.job_id from execution e join job j on j.id=e.job_id order by j.start_time, e.id").fetchone()
        val = con.execute("select c.value_hash from job j join call_node c on c.call_hash=j.call_hash order by j.start_time, j.id").fetchone()
    finally:
        con.close()
    if step == "tag-add-exec":
        cli(repo, "tag", "add", ex, "k=1")
    elif step == "tag-update-exec":
        cli(repo, "tag", "update", ex, "k=2")
    elif step == "tag-rm-exec":
        cli(repo, "tag", "rm", ex, "--", "k")
    elif step == "tag-add-value" and val:
        cli(repo, "tag", "add", val[0], "q=[1]")


def histories(L):
    out = []
    for n in range(1, L + 1):
        for first in RUNS:
            for rest in itertools.product(RUNS + TAGOPS, repeat=n - 1):
                out.append((first,) + rest)
    return out


def selections(db, thorough):
    con = sqlite3.connect(db)
    try:
        execs = [r[0] for r in con.execute("select e.id from execution e join job j on j.id=e.job_id order by j.start_time, e.id").fetchall()]
        job = con.execute("select id from job where parent_id is not null order by start_time, id").fetchone()
        node = con.execute("select call_hash from call_node order by timestamp, call_hash").fetchone()
        val = con.execute("select c.value_hash from job j join call_node c on c.call_hash=j.call_hash order by j.start_time, j.id").fetchone()
    finally:
        con.close()
    sel = [("all", None)] + [(f"execution-{i + 1}", [e]) for i, e in enumerate(execs)]
    if len(execs) > 2 and thorough:
        sel += [(f"executions-{i + 1}+{j + 1}", [execs[i], execs[j]]) for i, j in itertools.combinations(range(len(execs)), 2)]
    if job:
        sel.append(("child-job", [job[0]]))
    if node:
        sel.append(("call-node", [node[0]]))
    con = sqlite3.connect(db)
    try:
        per_task = con.execute("select task_name, min(call_hash) from call_node group by task_name order by task_name").fetchall()
    finally:
        con.close()
    for tname, ch in per_task:
        sel.append((f"call-node-of:{tname.split('.')[-1]}", [ch]))
    if val:
        sel.append(("value", [val[0]]))
    return sel, execs


NEXT = {"chain": ("top", [{}, {"leaf": 1}, {"mid": 1}, {"top": 1}]), "guard": ("guard", [{}, {"boom": 1}, {"rec": 1}, {"leaf": 1}]),
        "file": ("fmain", [{}, {"summ": 1}])}


# ------------------------------------------------------------------------------------------------ work
def explore_history(arg):
    import wf.editable as E
    from checks import c02
    from engine import common, crash, seams

    hist, thorough, methods = arg
    common.quiet_redun()
    root = os.path.join(common.scratch_dir(), f"c23-{os.getpid()}")
    shutil.rmtree(root, ignore_errors=True)
    os.makedirs(root)
    fpath = os.path.join(root, "input.txt")
    A, B, C = Repo(root, "A"), Repo(root, "B"), Repo(root, "C")
    A.configure([B, C])
    B.configure([A])
    C.configure([A])
    viol = []
    stats = {"transfers": 0, "rows_compared": 0, "cache_runs": 0, "states": 1}
    H = "+".join(hist)
    for k, step in enumerate(hist):
        do_step(A, step, k, fpath)
        # repository C is synchronised after every step (incremental transfers: later edits of records it already holds)
        try:
            transfer(methods[k % len(methods)], A, C, None, root)
            stats["transfers"] += 1
        except Exception as e:  # noqa: BLE001
            viol.append((f"incremental:transfer-raises:{type(e).__name__}", {"history": list(hist[: k + 1])}, f"{H}: sync after step {k + 1}: {type(e).__name__}: {e}"))
    src = raw_dump(A.db)
    if len(hist) > 1 and not viol:
        inc = raw_dump(C.db)
        want_inc = expected_after({t: set() for t in TABLES}, closure(src, [r[0] for r in src["execution"]]))
        d = diff(want_inc, inc)
        if d:
            t = sorted(d)[0]
            viol.append((f"incremental:destination-differs-after-stepwise-sync:{t}", {"history": list(hist), "selection": "all", "method": "after every step"},
                         f"{H}, destination synchronised after every step: differs from the reference closure of the final source: {d}"))
    # precondition of the reference model (C24's business if it ever fails): superseded <=> has a child edit
    parents = {p for p, _c in src["tag_edit"]}
    if {r[0] for r in src["tag"] if r[0] not in parents} != src["current"]:
        viol.append(("source-tag-currentness-not-structural", {"history": list(hist)}, f"{H}: a tag's is_current flag in the source is not 'has no child edit'"))
    sel, execs = selections(A.db, thorough)
    empty = {t: set() for t in TABLES}
    last_kind = "tagop" if hist[-1] in TAGOPS else hist[-1]
    for sname, roots in sel:
        want = expected_after(empty, closure(src, roots if roots else execs))
        for method in (methods[:1] if sname.startswith("call-node-of:") else methods):
            B.reset()
            case = {"history": list(hist), "selection": sname, "method": method}
            try:
                transfer(method, A, B, roots, root)
                got = raw_dump(B.db)
                stats["transfers"] += 1
                stats["rows_compared"] += sum(len(got[t]) for t in TABLES)
                d = diff(want, got)
                if d:
                    t = sorted(d)[0]
                    side = "missing" if d[t]["missing"] else "unexpected"
                    viol.append((f"transfer-differs:{t}:{side}:sel={sname.split(':')[0].split('-')[0]}", case, f"{H} / {sname} / {method}: destination differs from the reference closure of the source: {d}"))
                    continue
                if got["fk"] and sname != "child-job":  # a job without its execution necessarily points outside the transferred set
                    viol.append((f"dangling-reference:{got['fk'][0][0]}", case, f"{H} / {sname} / {method}: foreign_key_check {got['fk'][:3]}"))
                rep = transfer(method, A, B, roots, root)
                again = raw_dump(B.db)
                stats["transfers"] += 1
                if diff(got, again):
                    viol.append((f"repeat-transfer-changes-destination:{method}", case, f"{H} / {sname} / {method}: {diff(got, again)}"))
                if method == "push" and "up to date" not in rep or method == "pull" and "Pulled 0 " not in rep:
                    viol.append((f"repeat-transfer-reports-new-records:{method}", case, f"{H} / {sname} / {method}: {rep.strip()!r}"))
            except Exception as e:  # noqa: BLE001
                viol.append((f"transfer-raises:{method}:{type(e).__name__}:last={last_kind}", case, f"{H} / {sname} / {method}: {type(e).__name__}: {e}"))
    # cache behaviour of a fully transferred destination vs the source
    B.reset()
    transfer(methods[0], A, B, None, root)
    for prog in sorted({("chain" if s in ("chain", "chain-edit", "noprov") else s) for s in hist if s in RUNS} & set(NEXT)):
        troot, edits = NEXT[prog]
        for bodies in edits:
            for file_id in ((0, 1) if prog == "file" else (0,)):
                outs = {}
                for name, repo in (("truth", None), ("source", A), ("destination", B)):
                    E.define_all(bodies)
                    if prog == "file":
                        c02.write_file(fpath, file_id)
                    db = seams.fresh_db_path("c23t") if repo is None else crash.copy_db(repo.db, "c23c")
                    arg_ = fpath if prog == "file" else 1
                    _, o, _ = crash.run_workload(lambda env: [env.run(E.T(troot)(arg_))], db, id_salt=40)
                    outs[name] = (repr(o[0]), dict(E.CALLS))
                    seams.remove_db(db)
                    stats["cache_runs"] += 1
                case = {"history": list(hist), "next": {"program": prog, "edit": bodies, "file": file_id}}
                if outs["destination"][0] != outs["truth"][0]:
                    viol.append((f"destination-cache-wrong-result:{prog}:edit={sorted(bodies)}", case,
                                 f"{H}, then {prog} with edit {bodies}: destination returns {outs['destination'][0]}, an empty repository {outs['truth'][0]}"))
                elif not set(outs["source"][1]) <= set(outs["destination"][1]):
                    viol.append((f"destination-cache-serves-what-source-refuses:{prog}:edit={sorted(bodies)}", case,
                                 f"{H}, then {prog} with edit {bodies}: the source re-executes {sorted(outs['source'][1])}, the destination only {sorted(outs['destination'][1])}"))
    shutil.rmtree(root, ignore_errors=True)
    best = {}
    for s, c, d in viol:
        best.setdefault(s, (c, d))
    return {"viol": [(s, c, d) for s, (c, d) in best.items()], "stats": stats}


def all_pks(D):
    return {r[0] for t in ("execution", "job", "call_node", "value", "tag") for r in D[t]}


def records_of(D, roots):
    """Closure grouped by owning record: pk -> {table: rows}."""
    whole = closure(D, roots)
    owner_col = {"execution": 0, "job": 0, "call_node": 0, "call_edge": 0, "argument": 1, "call_subtree_task": 0, "value": 0, "subvalue": 1, "file": 0,
                 "task": 0, "tag": 0, "tag_edit": 1}
    arg_owner = {r[0]: r[1] for r in whole["argument"]}
    recs = {}
    for t, rows in whole.items():
        for r in rows:
            pk = arg_owner[r[0]] if t == "argument_result" else r[owner_col[t]]
            recs.setdefault(pk, {}).setdefault(t, set()).add(r)
    return recs


def model_receive(Y, recs):
    """put_records semantics: records whose id the receiver already holds are skipped as a whole; tag currentness is recomputed."""
    have = all_pks(Y)
    out = {t: set(Y[t]) for t in TABLES}
    for pk, tables in recs.items():
        if pk in have:
            continue
        for t, rows in tables.items():
            out[t] |= rows
    parents = {p for p, _c in out["tag_edit"]}
    out["current"] = {r[0] for r in out["tag"] if r[0] not in parents} & ({r[0] for r in out["tag"]} - (({r[0] for r in Y["tag"]} - Y["current"])))
    return out


def strip_ts(c):
    c = {t: set(rows) for t, rows in c.items()}
    c["call_node"] = {r[:5] for r in c["call_node"]}
    return c


def explore_pair(arg):
    """Two repositories with their own histories, synchronised in both directions in both orders.
    (1) each repository ends exactly as the record-level reference model of put_records predicts (a record the receiver already holds is
    kept as it is); (2) every execution, looked at in the other repository afterwards, has the same reachable records as at home."""
    from engine import common

    ha, hb, methods = arg
    common.quiet_redun()
    root = os.path.join(common.scratch_dir(), f"c23p-{os.getpid()}")
    viol = []
    n = 0
    HH = f"{'+'.join(ha)} | {'+'.join(hb)}"
    for order in ("A>B,B>A", "B>A,A>B"):
        shutil.rmtree(root, ignore_errors=True)
        os.makedirs(root)
        fpath = os.path.join(root, "input.txt")
        A, B = Repo(root, "A"), Repo(root, "B")
        A.configure([B])
        B.configure([A])
        for k, s in enumerate(ha):
            do_step(A, s, k, fpath)
        for k, s in enumerate(hb):
            do_step(B, s, 10 + k, fpath)
        orig = {"A": raw_dump(A.db), "B": raw_dump(B.db)}
        model = {k: dict(v) for k, v in orig.items()}
        repos = {"A": A, "B": B}
        case = {"history_a": list(ha), "history_b": list(hb), "order": order}
        try:
            for leg, m in zip(order.split(","), methods):
                sn, dn = leg.split(">")
                execs = [r[0] for r in model[sn]["execution"]]
                model[dn] = model_receive(model[dn], records_of(model[sn], execs))
                transfer(m, repos[sn], repos[dn], None, root)
                n += 1
                got = raw_dump(repos[dn].db)
                d = diff(model[dn], got)
                if d:
                    t = sorted(d)[0]
                    viol.append((f"bidirectional:receiver-differs-from-model:{t}", case, f"{HH} order {order}, after {leg} ({m}): repository {dn} differs from the "
                                 f"record-level model (existing ids kept, new records added whole): {d}"))
                    break
                if got["fk"]:
                    viol.append(("bidirectional:dangling-reference", case, f"{HH} order {order} after {leg}: {got['fk'][:3]}"))
            else:
                final = {"A": raw_dump(A.db), "B": raw_dump(B.db)}
                for home, away in (("A", "B"), ("B", "A")):
                    for e in sorted(r[0] for r in orig[home]["execution"]):
                        at_home, abroad = strip_ts(closure(orig[home], [e])), strip_ts(closure(final[away], [e]))
                        # a value the receiver already held under the same hash keeps its own bytes (a Task's options are outside its hash)
                        held = {r[0] for r in orig[away]["value"]}
                        for c_ in (at_home, abroad):
                            c_["value"] = {(r[0], r[1], r[2], None if r[0] in held else r[3]) for r in c_["value"]}
                        d = {t: (len(at_home[t] - abroad[t]), len(abroad[t] - at_home[t])) for t in TABLES if at_home[t] != abroad[t] and t != "tag_edit" and t != "tag"}
                        if d:
                            t = sorted(d)[0]
                            # the same call (same call hash) recorded with another set of children in the receiving repository before the transfer?
                            shapes = {r[0] for r in orig[home]["call_edge"] ^ orig[away]["call_edge"]} | {r[0] for r in orig[home]["call_subtree_task"] ^ orig[away]["call_subtree_task"]}
                            both = {r[0] for r in orig[home]["call_node"]} & {r[0] for r in orig[away]["call_node"]}
                            sig = "bidirectional:call-node-already-held-with-other-children" if shapes & both else f"bidirectional:execution-differs-abroad:{t}"
                            viol.append((sig, case, f"{HH} order {order}: execution {e[-4:]} of {home} has other reachable records in {away} than at home "
                                         f"(table: (missing, unexpected)) {d}"))
                            break
        except Exception as e:  # noqa: BLE001
            viol.append((f"bidirectional:transfer-raises:{type(e).__name__}", case, f"{HH} order {order}: {type(e).__name__}: {e}"))
    shutil.rmtree(root, ignore_errors=True)
    best = {}
    for s_, c, d in viol:
        best.setdefault(s_, (c, d))
    return {"viol": [(s_, c, d) for s_, (c, d) in best.items()], "stats": {"transfers": n, "rows_compared": 0, "cache_runs": 0, "states": 2}}


def run(ctx):
    import wf.editable  # noqa: F401
    import wf.tasks  # noqa: F401
    import redun.cli  # noqa: F401  (heavy import: before the pool forks)

    from engine import seams
    from engine.common import check_harness_errors

    seams.template_db()
    L = ctx.pick(2, 3)
    hs = histories(L)
    if L >= 3:
        # sized from measurements: of the length-3 histories keep those ending in a tag command or in a run that shares records with earlier ones
        hs = [h for h in hs if len(h) < 3 or h[2] in TAGOPS or h[2] in ("chain-edit", "tags")]
    methods = ["push", "pull", "export-import"]
    items = [(h, not ctx.quick, methods if (not ctx.quick or len(h) < L or i % 3 == 0) else [methods[i % 3]]) for i, h in enumerate(hs)]
    res = ctx.pmap(explore_history, ctx.rotate(items), chunksize=2)
    check_harness_errors(res)
    ctx.add_results(res)
    if ctx.quick:
        pair_h = [h for h in histories(2) if len(h) == 1 or h[1] in TAGOPS and h[0] in ("chain", "tags")]
    else:
        pair_h = [h for h in histories(2) if len(h) == 1 or h[1] in TAGOPS]  # 8 + 32 histories -> 1600 ordered pairs
    pairs = [(a, b, m) for a in pair_h for b in pair_h for m in ((("push", "pull"),) if ctx.quick else (("push", "pull"), ("export-import", "push")))]
    res2 = ctx.pmap(explore_pair, ctx.rotate(pairs), chunksize=4)
    check_harness_errors(res2)
    ctx.add_results(res2)
    tot = lambda k: sum(r["stats"][k] for r in res + res2)  # noqa: E731
    return {"coverage": {
        "states": len(hs) + len(pairs), "transitions": tot("transfers"), "traces_validated_against_impl": tot("transfers"),
        "source_histories": len(hs), "two_repository_pairs": len(pairs), "rows_compared": tot("rows_compared"), "post_transfer_cache_runs": tot("cache_runs"),
        "history_length": L, "exhaustive": True,
        "rule": f"every source history of <= {L} steps (at length 3: those ending in a tag command, 'chain-edit' or 'tags'; first a run; 8 run kinds: chain, chain with an edited leaf, caught failure, uncaught failure, File "
        "value, applied tags of every entity kind, prov=False subtree, arguments with several upstream calls; 4 CLI tag commands add/update/rm on the first execution, add on a value) x root "
        "selection (all, each execution, thorough: pairs, a child job, a call node, a value, the first call node of every task) x method (push, pull, export+import through the real CLI"
        f"{'' if not ctx.quick else '; at the longest length every third history uses all three methods, the others one'}): destination rows == "
        "reference closure computed by the harness from a raw SQL dump of the source, tag currentness structural, foreign_key_check clean, repeat adds "
        "nothing; a third repository synchronised after EVERY step of the history (incremental transfers) ends equal to the closure of the final source; two repositories with different histories synchronised in both orders converge to the union; after a full transfer every next "
        "configuration (task edits, file change) gives the ground-truth result on the destination and runs at least the functions the source runs",
        "samples": [list(hs[0]), list(hs[-1])],
    }, "assumptions": ["SQLite repositories; ids and clocks are logical (seams) so two repositories never share execution/job ids",
                       "handles, the evaluation (single-reduction) table and Execution.updated_time are not part of the transferred records"]}
