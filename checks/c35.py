"""C35 — Config -> two-level dict -> Config round trip keeps sections, nesting and effective values (incl. literal '$')."""
from __future__ import annotations

import itertools

LEVEL = "exploration"

SECTIONS = ["a", "c.d", "c.e", "scheduler", "x.y.z"]
KEYS = ["x", "y", "Z"]


def values(cfgdir):
    return [("plain", "v"), ("num", "1"), ("empty", ""), ("dollar", "$$5"), ("dollar-mid", "a$$b"), ("dollars", "$$$$"), ("ref", "${a:x}"),
            ("percent", "%(x)s"), ("path", cfgdir + "/db"), ("path-mid", "sqlite:///" + cfgdir + "/redun.db"), ("colon", "k: v"),
            ("eq", "a=b"), ("spaces", "a  b"), ("hash", "a # b"), ("unicode", "é")]


def flatten(cfg, prefix=""):
    """(dotted section path, key) -> effective value, via the public nested access."""
    from configparser import SectionProxy

    out = {}
    for k in cfg.keys():
        v = cfg[k]
        path = f"{prefix}.{k}" if prefix else k
        if isinstance(v, SectionProxy):
            for opt in v.keys():
                try:
                    out[(path, opt)] = ("ok", v.get(opt))
                except Exception as e:  # noqa: BLE001
                    out[(path, opt)] = ("err", type(e).__name__)
        else:
            out.update(flatten(v, path))
    return out


def run(ctx):
    import os

    from redun.cli import REDUN_CONFIG_ENV, get_config_dir
    from redun.config import Config

    n = 0
    distinct = set()
    samples = []
    saved_env = os.environ.get(REDUN_CONFIG_ENV)
    # (local config dir as configured, replacement): the default one, one with a literal '$', two that are not in normal form
    combos = [(None, "NEW"), ("/data/$proj/.redun", "NEW"), (None, "/mnt/$remote/.redun"), ("/x/.redun/", "NEW"), ("/x/./.redun", "NEW"), ("/x/.redun", "/x/.redun/sub")]
    try:
        for ci, (cfg_env, repl) in enumerate(combos):
            if cfg_env is None:
                os.environ.pop(REDUN_CONFIG_ENV, None)
            else:
                os.environ[REDUN_CONFIG_ENV] = cfg_env
            cfgdir = get_config_dir()
            vals = values(cfgdir.replace("$", "$$"))  # written in INI syntax: a literal dollar is doubled
            if cfgdir.endswith("/"):
                vals.append(("path-without-slash", cfgdir.rstrip("/")))  # does NOT contain the configured dir: must stay as it is
            # every non-empty subset of sections (<=3) x for each section one or two keys x every value kind
            sec_sets = [s for r in ((1, 2, 3) if ci == 0 else (1, 2)) for s in itertools.combinations(SECTIONS, r)]
            for secs in ctx.rotate(sec_sets):
                for (kind1, v1), (kind2, v2) in itertools.product(vals, vals[: ctx.pick(4, len(vals))]):
                    if ci > 0 and not (kind1.startswith("path") or kind2.startswith("path")):
                        continue  # the other config-dir combinations only matter for values that mention the directory
                    lines = []
                    uses_ref = "ref" in (kind1, kind2)
                    if uses_ref and "a" not in secs:
                        continue
                    for i, s_ in enumerate(secs):
                        lines.append(f"[{s_}]")
                        if s_ == "a":
                            lines.append("x = base")
                            if kind1 != "ref":
                                lines.append(f"y = {v1}")
                        else:
                            lines.append(f"x = {v1}" if not (kind1 == "percent") else f"x = lit\nZ = {v1}")
                            lines.append(f"y = {v2}")
                    text = "\n".join(lines) + "\n"
                    c = Config()
                    try:
                        c.read_string(text)
                        before = flatten(c)
                    except Exception:
                        continue  # the loader rejects this text: outside the statement
                    if any(v[0] == "err" for v in before.values()):
                        continue  # original config itself cannot be read (e.g. bad interpolation): not a round-trip question
                    n += 1
                    distinct.add((secs, kind1, kind2, ci))
                    case = {"ini": text, "config_dir": cfgdir, "replace_config_dir": repl}
                    sigk = f"{kind1}" if kind1 == kind2 else f"{kind1}+{kind2}"
                    if ci == 0:
                        try:
                            d = c.get_config_dict()
                            c2 = Config(config_dict=d)
                            after = flatten(c2)
                        except Exception as e:  # noqa: BLE001
                            ctx.violation(f"roundtrip-raises:{type(e).__name__}:{sigk}", case, f"{text!r}: {e!r}")
                            continue
                        if set(after) != set(before):
                            ctx.violation(f"sections-differ:{sigk}", case, f"{text!r}: {sorted(set(before) ^ set(after))}")
                            continue
                        bad = [(k, before[k], after[k]) for k in before if before[k] != after[k]]
                        if bad:
                            kinds = sorted({kind1 if k[1] in ("x", "Z") else kind2 for k, _, _ in bad})
                            ctx.violation(f"value-differs:{'+'.join(kinds)}", case, f"{text!r}: {bad[:3]}")
                        # the Config object is edited in place through its section objects AFTER a conversion (what postprocess_config and
                        # the CLI do): the next conversion reflects the edit
                        try:
                            obj = c
                            for part in secs[0].split("."):
                                obj = obj[part]
                            obj["x"] = "EDITED"
                            obj["w"] = "NEW"
                            now = flatten(c)
                            after3 = flatten(Config(config_dict=c.get_config_dict()))
                        except Exception as e:  # noqa: BLE001
                            ctx.violation(f"roundtrip-after-edit-raises:{type(e).__name__}", case, f"{text!r}: {e!r}")
                            continue
                        if after3 != now:
                            ctx.violation("roundtrip-stale-after-in-place-edit", case,
                                          f"{text!r}: converted once, then [{secs[0]}] x and w set through the section object: the next "
                                          f"get_config_dict() round trip differs at {sorted(k for k in set(now) | set(after3) if now.get(k) != after3.get(k))[:4]}")
                    # replace_config_dir: reading the rewritten dict back gives the original effective values with the local config dir, and
                    # only it, replaced
                    combo_sig = f"dir={'default' if cfg_env is None else cfg_env}:to={repl}"
                    if ci == 0:
                        c = Config()
                        c.read_string(text)  # a fresh object: the one above was edited
                    try:
                        d2 = c.get_config_dict(replace_config_dir=repl)
                        after2 = flatten(Config(config_dict=d2))
                    except Exception as e:  # noqa: BLE001
                        ctx.violation(f"replace-config-dir-raises:{type(e).__name__}:{combo_sig}", case, f"config dir {cfgdir!r} -> {repl!r}, {text!r}: {e!r}")
                        continue
                    exp2 = {k: (st, v.replace(cfgdir, repl) if isinstance(v, str) else v) for k, (st, v) in before.items()}
                    bad2 = [(k, exp2[k], after2.get(k)) for k in exp2 if after2.get(k) != exp2[k]]
                    if bad2:
                        ctx.violation(f"replace-config-dir:{combo_sig}", case, f"config dir {cfgdir!r} -> {repl!r}, {text!r}: (key, expected, got) {bad2[:2]}")
                    if len(samples) < 3 and len(secs) == 2:
                        samples.append(text)
    finally:
        if saved_env is None:
            os.environ.pop(REDUN_CONFIG_ENV, None)
        else:
            os.environ[REDUN_CONFIG_ENV] = saved_env
    return {"coverage": {
        "evaluations": n, "distinct_nontrivial": len(distinct), "config_dir_combinations": len(combos), "exhaustive": True,
        "rule": "INI texts the loader accepts: every subset of <=3 sections from {a, c.d, c.e, scheduler, x.y.z} x pairs of value kinds "
        "(plain, number, empty, escaped dollars, cross-section interpolation, percent, config-dir paths, ':' '=' '#', spaces, unicode); oracle: "
        "Config(config_dict=c.get_config_dict()) has the same (section path, key) set and the same effective values, also after the object "
        "was converted once and then edited in place through a section object; with replace_config_dir, for 6 "
        "(configured local dir, replacement) combinations (default; a literal '$' in either; trailing slash; './' segment; replacement containing the "
        "dir): reading the rewritten dict back gives the original effective values with exactly the configured dir replaced; distinct = (section "
        "set, value kinds, combination)",
        "samples": samples or ["[a]\nx = v\n"],
    }, "assumptions": ["a section and its own sub-section (c and c.d) are not mixed; texts whose original values cannot be read are skipped"]}
