"""C36 — upgrading a populated database from every historical schema version to the latest keeps all rows and shared
column values, and the result is accepted by the library and usable for caching."""
from __future__ import annotations

import os
import sqlite3
import time

LEVEL = "exploration"

SKIP_TABLES = {"alembic_version", "redun_version", "redun_migration", "tmp_ancestors"}
POPULATIONS = ["two-rows", "one-row-nulls", "lonely-task", "root-job-without-execution", "empty", "nonplain-task-values"]


def schema(con):
    tables = [r[0] for r in con.execute("select name from sqlite_master where type='table'") if r[0] not in SKIP_TABLES and not r[0].startswith("sqlite_")]
    info = {}
    for t in tables:
        cols = con.execute(f"PRAGMA table_info({t})").fetchall()  # cid, name, type, notnull, dflt, pk
        fks = {r[3]: (r[2], r[4]) for r in con.execute(f"PRAGMA foreign_key_list({t})").fetchall()}  # from -> (table, to)
        info[t] = {"cols": cols, "fks": fks}
    return info


def gen_value(info, t, col, i, depth=0):
    cid, name, typ, notnull, dflt, pk = col
    fks = info[t]["fks"]
    typ = (typ or "").upper()
    if name in fks and depth < 4:
        rt, rc = fks[name]
        if rt in info:
            rcol = next(c for c in info[rt]["cols"] if c[1] == (rc or next(c2[1] for c2 in info[rt]["cols"] if c2[5])))
            if rt == t:  # self reference (job.parent_id): row 0 is a root, row 1 points to row 0
                return None if i == 0 else gen_value(info, rt, rcol, 0, depth + 1)
            return gen_value(info, rt, rcol, i, depth + 1)
    if "DATETIME" in typ or "TIMESTAMP" in typ:
        # every timestamp column gets its own sub-second part (a migration mixing columns up must show)
        return f"2020-01-0{i + 1} 10:00:05.{(sum(map(ord, t + '.' + name)) * 7919 + i) % 1000000:06d}"
    if "BOOL" in typ:
        return i % 2
    if "BLOB" in typ or "BINARY" in typ:
        import pickle

        return pickle.dumps(i, protocol=3)
    if "INT" in typ:
        return i
    if "JSON" in typ:
        return str(i + 1)
    if name == "entity_type":
        return "Value"
    if name == "type":
        return "builtins.int"
    if name == "format":
        return "application/python-pickle"
    if name == "args" and t == "execution":
        return '["redun", "run"]'
    return f"{t}_{name}_{i}"[:40]


def populate(con, info, kind):
    if kind == "empty":
        return
    nrows = 2 if kind != "one-row-nulls" else 1
    for t, ti in info.items():
        if kind == "lonely-task" and t == "value":
            continue  # tasks (and everything else) without companion value rows
        if kind == "root-job-without-execution" and t == "execution":
            continue
        for i in range(nrows):
            names, vals = [], []
            for col in ti["cols"]:
                cid, name, typ, notnull, dflt, pk = col
                v = gen_value(info, t, col, i)
                if kind == "one-row-nulls" and not notnull and not pk and name not in ti["fks"]:
                    v = None
                if kind == "root-job-without-execution" and t == "job" and name == "execution_id":
                    v = None
                names.append(name)
                vals.append(v)
            try:
                con.execute(f"insert into {t} ({','.join(names)}) values ({','.join('?' * len(names))})", vals)
            except sqlite3.IntegrityError:
                pass  # duplicate composite keys produced by the generator (e.g. both rows of an edge table equal)
    if kind == "nonplain-task-values" and "task" in info and "value" in info:
        # every task has a companion value row under its own hash whose type is NOT the plain task type (scheduler task, partial task)
        vcols = info["value"]["cols"]
        for i, (h,) in enumerate(con.execute("select hash from task order by hash").fetchall()):
            names, vals = [], []
            for col in vcols:
                v = gen_value(info, "value", col, i)
                if col[1] == "value_hash":
                    v = h
                if col[1] == "type":
                    v = ["redun.task.SchedulerTask", "redun.PartialTask"][i % 2]
                names.append(col[1])
                vals.append(v)
            con.execute(f"insert or replace into value ({','.join(names)}) values ({','.join('?' * len(names))})", vals)
    con.commit()


def dump(con, info):
    out = {}
    for t, ti in info.items():
        names = [c[1] for c in ti["cols"]]
        pks = [c[1] for c in ti["cols"] if c[5]] or names
        rows = con.execute(f"select {','.join(names)} from {t}").fetchall()
        out[t] = {"names": names, "rows": {tuple(r[names.index(p)] for p in pks): dict(zip(names, r)) for r in rows}}
    return out


def norm(v):
    if isinstance(v, str) and len(v) >= 19 and v[4] == "-" and v[10] == " " and v[13] == ":":
        s = v.replace("+00:00", "")
        if "." in s:
            s = s.rstrip("0").rstrip(".")
        return ("instant", s)
    return v


def check_one(arg):
    from redun.backends.db import REDUN_DB_VERSIONS, RedunBackendDb

    from engine import common, seams

    vi, kind, tz = arg
    version = REDUN_DB_VERSIONS[vi]
    os.environ["TZ"] = tz
    time.tzset()
    # the 3.3 -> 3.4 migration reinterprets job times, stored as local wall-clock time before, as UTC instants
    shift_h = {"UTC": 0, "JST-9": -9}[tz] if (version.major, version.minor) < (3, 4) else 0
    path = os.path.join(common.scratch_dir(), f"c36-{vi}-{kind}-{os.getpid()}.db")
    seams.remove_db(path)
    viol = []
    b = RedunBackendDb(db_uri=f"sqlite:///{path}")
    b.create_engine()
    b.migrate(version)
    seams.close_backend(b)
    con = sqlite3.connect(path)
    info = schema(con)
    populate(con, info, kind)
    before = dump(con, info)
    con.close()
    case = {"from_version": f"{version.major}.{version.minor}", "population": kind, "tz": tz}
    nrows = sum(len(t["rows"]) for t in before.values())
    try:
        b2 = RedunBackendDb(db_uri=f"sqlite:///{path}")
        b2.load()
        seams.close_backend(b2)
    except Exception as e:  # noqa: BLE001
        seams.remove_db(path)
        return {"viol": [(f"upgrade-raises:{type(e).__name__}:{kind}", case, f"{case}: upgrade to head failed: {e!r}")], "rows": nrows, "cols": 0}
    con = sqlite3.connect(path)
    after = dump(con, schema(con))
    con.close()
    ncols = 0
    for t, bt in before.items():
        if t not in after:
            continue
        shared = [n for n in bt["names"] if n in after[t]["names"]]
        for pk, row in bt["rows"].items():
            if pk not in after[t]["rows"]:
                viol.append((f"row-lost:{t}:{kind}", case, f"{case}: row {pk} of table {t} is gone after the upgrade"))
                continue
            arow = after[t]["rows"][pk]
            for n in shared:
                ncols += 1
                if row[n] is None and arow[n] is not None:
                    continue  # a migration may backfill a column that was NULL
                want = row[n]
                if shift_h and t == "job" and n in ("start_time", "end_time") and isinstance(want, str):
                    import datetime as _dt

                    want = (_dt.datetime.strptime(want, "%Y-%m-%d %H:%M:%S.%f") + _dt.timedelta(hours=shift_h)).strftime("%Y-%m-%d %H:%M:%S.%f")
                if norm(want) != norm(arow[n]):
                    viol.append((f"value-changed:{t}.{n}", case, f"{case}: {t}.{n} of row {pk}: {row[n]!r} -> {arow[n]!r}"))
    # usable for caching: run a workflow twice on the upgraded database
    try:
        import wf.tasks as T
        from engine import evloop

        env = evloop.Env([], db_path=path, id_salt=7)
        try:
            o1 = env.run(T.mid(1))
            n1 = len(env.ctl.submits)
            o2 = env.run(T.mid(1))
            n2 = len(env.ctl.submits) - n1
        finally:
            env.close()
        if o1 != ("ok", 101) or o2 != ("ok", 101) or n2 != 0:
            viol.append((f"not-usable-for-caching:{kind}", case, f"{case}: runs on the upgraded database gave {o1!r}, {o2!r} with {n2} submissions in the second run"))
    except Exception as e:  # noqa: BLE001
        viol.append((f"run-on-upgraded-db-raises:{type(e).__name__}:{kind}", case, f"{case}: {e!r}"))
    seams.remove_db(path)
    os.environ["TZ"] = "UTC"
    time.tzset()
    best = {}
    for sig, c, d in viol:
        best.setdefault(sig + ("" if tz == "UTC" else ":tz=" + tz), (c, d))
    return {"viol": [(s, c, d) for s, (c, d) in best.items()], "rows": nrows, "cols": ncols}


def run(ctx):
    from redun.backends.db import REDUN_DB_VERSIONS

    from engine.common import check_harness_errors

    items = [(vi, kind, "UTC") for vi in range(len(REDUN_DB_VERSIONS)) for kind in POPULATIONS]
    items += [(vi, kind, "JST-9") for vi in range(len(REDUN_DB_VERSIONS)) for kind in POPULATIONS[:2]]
    res = ctx.pmap(check_one, ctx.rotate(items), chunksize=1)
    check_harness_errors(res)
    best = {}
    for r in res:
        for sig, c, d in r["viol"]:
            if sig not in best:
                best[sig] = (c, d)
    for sig, (c, d) in best.items():
        ctx.violation(sig, c, d)
    return {"coverage": {
        "evaluations": len(items), "distinct_nontrivial": len([i for i in items if i[1] != "empty"]),
        "rows_compared": sum(r["rows"] for r in res), "column_values_compared": sum(r["cols"] for r in res), "exhaustive": True,
        "rule": "each of the 11 historical schema versions as starting point x 6 populations generated from the reflected schema (two FK-consistent rows "
        "per table; one row with every nullable non-key column NULL; tasks without companion values; tasks whose companion value is a scheduler / partial task value; root jobs without an execution; empty), upgraded "
        "to head by load() with TZ=UTC (the two populated kinds also with TZ=JST-9, where the 3.3->3.4 step must move job times by exactly the "
        "zone offset, finished or not); oracle: every (table, primary key) is still present with equal values in the shared columns (timestamps "
        "compared as instants), and a workflow run twice on the upgraded file succeeds with the second run fully cached",
        "samples": [{"from_version": i[0], "population": i[1]} for i in items[:3]],
    }, "assumptions": ["SQLite only; time zones UTC and JST-9"]}
