"""C20 — the recorded call graph is a consistent Merkle record of the run (whole-database oracle over the program family)."""
LEVEL = "model_checking"


def run(ctx):
    from checks import graph_runner

    cov = graph_runner.run_property(ctx, "C20")
    from checks import c20_tags

    cov.update(c20_tags.tags_leg(ctx))
    cov["rule"] = ("every generated program of size <= 4 (failures, duplicates, control forms, apply_tags) executed twice on one database (second run = "
                   "cached replays; once on the same backend object and once on a new backend object, as a second process would) under the default schedule, programs of size <= 3 under all schedules within the deviation bound; over ALL rows: every "
                   "finished job has a call node whose hash equals hash(task, args, result, sorted recorded children); for jobs that really ran the recorded "
                   "children equal the finished child jobs' call nodes; (job, parent) rows and execution roots equal the jobs the scheduler created; "
                   "every value row deserializes to a value whose hash is its key. Tag placement: every subset of <= 3 (thorough 4) of 7 tag sources "
                   "(task option tags= on a job run once / duplicated, apply_tags on a value, the current job, the execution, inside a child or inline) x "
                   "main with/without shallow validity, run twice with run(tags=): the set of current tag rows equals exactly the expected "
                   "(entity, key, value) set computed from the jobs the scheduler created")
    return {"coverage": cov, "assumptions": ["ErrorValue/Traceback values are not re-hashed (they reference live job objects)"]}
