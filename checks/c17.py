"""C17 — task hashes track code identity (name, namespace, source or version, hash_includes, call-time options,
wrapped task, partial arguments) and ignore definition-time options, decorator lines and hash_includes order."""
from __future__ import annotations

import importlib.util
import itertools
import os
from collections import defaultdict

LEVEL = "exploration"

NAMES = ["f", "g"]
NSS = ["n1", "n2"]
BODIES = [0, 1]
VERSIONS = [None, "1", "2"]
INCLUDES = [(), (1,), (1, 2), (2, 1), ("1",)]
CALL_OPTS = [{}, {"x": 1}, {"memory": 1}, {"memory": 2}]  # "memory" is also a definition-time option (DEF_OPTS): an override equal to it is still an override
DEF_OPTS = [{}, {"memory": 1}, {"memory": 2}]
DECOS = [0, 1, 2]  # 0: plain, 1: an extra decorator line, 2: the @task(...) call spread over several lines


def module_text(defs):
    lines = ["from redun import task", "", "def noop(fn):", "    return fn", "", "TASKS = []", ""]
    for i, (name, ns, body, ver, inc, dopt, deco) in enumerate(defs):
        kw = [f"name={name!r}", f"namespace={ns!r}"]
        if ver is not None:
            kw.append(f"version={ver!r}")
        if inc:
            kw.append(f"hash_includes={list(inc)!r}")
        for k, v in dopt.items():
            kw.append(f"{k}={v!r}")
        if deco == 2:
            lines.append("@task(")
            for k_ in kw:
                lines.append(f"    {k_},")
            lines.append(")")
        else:
            lines.append(f"@task({', '.join(kw)})")
        if deco == 1:
            lines.append("@noop")
        lines.append("def fn(x):")
        lines.append(f"    return x + {body}")
        lines.append("TASKS.append(fn)")
        lines.append("")
    return "\n".join(lines)


def load_defs(defs, tag):
    from engine import common

    path = os.path.join(common.scratch_dir(), f"c17_{tag}.py")
    with open(path, "w") as f:
        f.write(module_text(defs))
    spec = importlib.util.spec_from_file_location(f"c17_{tag}", path)
    mod = importlib.util.module_from_spec(spec)
    spec.loader.exec_module(mod)
    return mod.TASKS


def work(arg):
    tag, defs = arg
    tasks = load_defs(defs, tag)
    out = []
    for d, t in zip(defs, tasks):
        name, ns, body, ver, inc, dopt, deco = d
        code_id = ("ver", ver) if ver is not None else ("src", body)
        base_ident = (f"{ns}.{name}", code_id, tuple(sorted(map(repr, inc))))
        variants = [(co, (t.options(**co) if co else t), f"call_opts={co}") for co in CALL_OPTS]
        # the same overrides given through export_options(), alone and chained with options(), denote the same task identity
        variants.append(({"x": 1}, t.export_options(x=1), "export_options(x=1)"))
        variants.append(({"y": 2, "x": 1}, t.options(y=2).export_options(x=1), "options(y=2).export_options(x=1)"))
        variants.append(({"y": 2, "x": 1}, t.options(y=2).options(x=1), "options(y=2).options(x=1)"))
        variants.append(({"x": 1, "y": 2}, t.export_options(x=1).options(y=2), "export_options(x=1).options(y=2)"))
        for co, t2, how in variants:
            out.append(((base_ident, tuple(co.items()), None), t2.hash, repr(d) + " " + how))
            for bound in ((0,), (1,), (0, 0)):
                p = t2.partial(*bound)
                out.append(((base_ident, tuple(co.items()), ("partial", bound)), p.hash, repr(d) + f" {how} partial{bound}"))
    return out


def wrapped_leg(ctx):
    """wraps_task: the visible task's hash must change when the hidden inner task changes, and only then."""
    import sys

    from redun.task import TaskRegistry, wraps_task

    tm = sys.modules["redun.task"]
    saved = tm._task_registry
    rows = []
    try:
        for inner_body, wrapper_inc, outer_name in itertools.product([0, 1], [(), (5,), (6,)], ["w", "v"]):
            tm._task_registry = TaskRegistry()
            from redun import task

            @wraps_task(wrapper_name="dbl", wrapper_hash_includes=list(wrapper_inc))
            def dbl(inner):
                def do(*a, **k):
                    return 2 * inner.func(*a, **k)
                return do

            def inner(x):
                return x

            it = task(name=outer_name, namespace="c17w", source=f"def inner(x): return x + {inner_body}")(inner)
            wt = dbl(it)
            rows.append((("wrapped", outer_name, inner_body, tuple(wrapper_inc)), wt.hash, f"wrapper over {outer_name} body {inner_body} includes {wrapper_inc}"))
        # ONE decorator object applied to two tasks, in both orders (and the decorator built without wrapper_hash_includes, twice):
        # a wrapped task's hash must not depend on what the decorator wrapped before or after it
        for wrapper_inc, order in itertools.product([(), (5,), None], [(("w", 0), ("v", 1)), (("v", 1), ("w", 0)), (("w", 1), ("w", 0))]):
            tm._task_registry = TaskRegistry()
            from redun import task

            def make_deco():
                kw = {} if wrapper_inc is None else {"wrapper_hash_includes": list(wrapper_inc)}

                @wraps_task(wrapper_name="dbl", **kw)
                def dbl(inner):
                    def do(*a, **k):
                        return 2 * inner.func(*a, **k)
                    return do
                return dbl

            deco = make_deco()
            made = []
            for k, (outer_name, inner_body) in enumerate(order):
                def inner(x):
                    return x

                it = task(name=outer_name, namespace="c17w", source=f"def inner(x): return x + {inner_body}")(inner)
                wt = (deco if wrapper_inc is not None else make_deco())(it)
                # (own identity class: the wrapper function's source text, indentation included, differs from the loop above)
                ident = ("wrapped-shared-decorator", outer_name, inner_body, tuple(wrapper_inc or ()))
                how = f"wrapper (includes {wrapper_inc}) over {outer_name} body {inner_body}, #{k + 1} wrapped by the same decorator in order {order}"
                rows.append((ident, wt.hash, how))
                made.append((ident, wt, how))
            for ident, wt, how in made:
                rows.append((ident, wt._calc_hash(), how + " (hash recomputed after all were wrapped)"))
    finally:
        tm._task_registry = saved
    return rows


def file_edit_leg(ctx):
    """A task defined in a real source file whose body is edited IN PLACE (same file, same qualified name, same first line) and re-imported
    in the same process: the hash must follow the body through every edit history (all sequences of <=2 (thorough 3) edits over 8 definitions, incl. ones that differ only in a default value, an annotation or a comment)."""
    import importlib.util
    import os

    from engine import common

    root = os.path.join(common.scratch_dir(), "c17-src")
    os.makedirs(root, exist_ok=True)
    path = os.path.join(root, "c17_edited_module.py")
    # (signature, body): pairs 0/2 have equal length; 4/5 differ only in a default VALUE, 0/6 only in an annotation, 0/7 only in a comment
    # (equal bytecode, different source text)
    bodies = [("x", "x * 2"), ("x", "x * 10"), ("x", "x * 3"), ("x", "x * 100 + 1"), ("x, k=1", "x * k"), ("x, k=2", "x * k"), ("x: int", "x * 2"),
              ("x", "x * 2  # doubled")]
    n = 0
    clock = [2_000_000_000]

    def load(sig_body):
        sig, body = sig_body
        with open(path, "w") as f:
            f.write(f"from redun import task\n\n\n@task(namespace='c17f')\ndef edited({sig}):\n    return {body}\n")
        clock[0] += 10
        os.utime(path, (clock[0], clock[0]))  # an edit always moves the modification time forward
        spec = importlib.util.spec_from_file_location("c17_edited_module", path)
        mod = importlib.util.module_from_spec(spec)
        spec.loader.exec_module(mod)
        return mod.edited

    for k in (1, 2, 3) if not ctx.quick else (1, 2):
        for hist in itertools.product(range(len(bodies)), repeat=k):
            seen = {}
            for step, b in enumerate(hist):
                t = load(bodies[b])
                n += 1
                if t.func(3) != eval(f"lambda {bodies[b][0].replace(': int', '')}: {bodies[b][1].split('#')[0]}")(3):
                    raise AssertionError("harness: module not reloaded")
                for b2, h2 in seen.items():
                    if (b2 == b) != (h2 == t.hash):
                        kind = "edit-not-reflected-in-hash" if b2 != b else "same-body-different-hash"
                        ctx.violation(f"file-edit:{kind}", {"history": [bodies[i] for i in hist[: step + 1]]},
                                      f"task edited in place through bodies {[bodies[i] for i in hist[: step + 1]]}: body {bodies[b]!r} has hash {t.hash[:8]}, "
                                      f"body {bodies[b2]!r} had {h2[:8]}")
                seen[b] = t.hash
    return n


def run(ctx):
    from engine.common import check_harness_errors

    n_edit = file_edit_leg(ctx)
    defs = list(itertools.product(NAMES, NSS, BODIES, VERSIONS, INCLUDES, DEF_OPTS, DECOS))
    # under a version the body is "don't care" for the statement: enumerate only body 0 there
    defs = [d for d in defs if not (d[3] is not None and d[2] != 0)]
    defs = ctx.rotate(defs)
    chunks = [(i, defs[i:i + 120]) for i in range(0, len(defs), 120)]
    res = ctx.pmap(work, chunks, chunksize=1)
    check_harness_errors(res)
    rows = [r for chunk in res for r in chunk] + wrapped_leg(ctx)
    by_hash, by_ident, ex = defaultdict(set), defaultdict(set), {}
    for ident, h, desc in rows:
        by_hash[h].add(ident)
        by_ident[ident].add(h)
        ex.setdefault((h, ident), desc)

    def field_diff(a, b):
        if a[0] == "wrapped" or b[0] == "wrapped":
            return "wrapped"
        names = ["fullname", "code", "hash_includes"]
        for n, x, y in zip(names, a[0], b[0]):
            if x != y:
                return n
        return "call-options" if a[1] != b[1] else "partial-args"

    for h, ids in by_hash.items():
        if len(ids) > 1:
            a, b = sorted(ids, key=repr)[:2]
            ctx.violation(f"hash-ignores:{field_diff(a, b)}", {"a": ex[(h, a)], "b": ex[(h, b)]},
                          f"different code identities share task hash {h[:8]}: {ex[(h, a)]}  vs  {ex[(h, b)]}")
    for ident, hs in by_ident.items():
        if len(hs) > 1:
            hh = sorted(hs)[:2]
            ctx.violation("hash-depends-on-irrelevant-detail", {"a": ex[(hh[0], ident)], "b": ex[(hh[1], ident)]},
                          f"same code identity, different hashes: {ex[(hh[0], ident)]}  vs  {ex[(hh[1], ident)]}")
    return {"coverage": {
        "file_edit_loads": n_edit, "evaluations": len(rows),
        "distinct_nontrivial": len(by_ident),
        "distinct_hashes": len(by_hash),
        "exhaustive": True,
        "rule": "full product of name x namespace x body x version x hash_includes (incl. reordered) x definition-time options x extra decorator "
        "line, each also with 3 call-time option sets and 3 partial bindings, defined in real module files so that inspect-based source "
        "extraction runs; plus wraps_task wrappers over changing inner bodies / wrapper includes; oracle over all pairs: hash equal <=> "
        "(fullname, source|version, sorted includes, call options, wrapped identity, bound args) equal",
        "samples": [rows[i][2] for i in (0, len(rows) // 2, len(rows) - 1)],
    }, "assumptions": ["for versioned tasks only one body is enumerated (the statement leaves body changes under a fixed version open)"]}
