"""C11 — the job arrayer hands off every job exactly once, in well-formed batches, for every (preemption-bounded)
interleaving of add_job calls with the array-monitor thread.  Real threads, real JobArrayer code, controlled scheduler."""
from __future__ import annotations

import types
from collections import Counter

LEVEL = "model_checking"


class FakeTask:
    def __init__(self, namespace, name):
        self.namespace = namespace
        self.name = name
        self.fullname = f"{namespace}.{name}"
        self.script = False


class FakeJob:
    def __init__(self, jid, descr):
        self.id = jid
        # description 0 and 1: two tasks with the SAME short name in different namespaces and equal options; 2: task 0 with other options
        self.task = FakeTask("other" if descr == 1 else "ns", "task")
        self._opts = {"memory": 2 if descr == 2 else 0}

    def get_options(self):
        return self._opts

    def __repr__(self):
        return f"J{self.id}"


CASES = []
for mn, mx in ((2, 2), (2, 3), (1, 2)):
    for plan in (
        [[0, 0]],                # one adder, two jobs of one description
        [[0, 1]],                # one adder, two descriptions (a new key appears while the monitor may iterate)
        [[0], [0]],              # two adders racing on one description
        [[0], [1]],              # two adders, two descriptions
        [[0, 0, 0]],             # more than max for (2,2): remainder path
        [[0, 1], [0]],
        [[0, 2]],                # same task, other options
    ):
        CASES.append({"min": mn, "max": mx, "plan": plan})
# a job of the same description is added WHILE the monitor hands off an over-sized stale group (remainder path with a concurrent add)
# an over-sized group whose remainder is smaller than the minimum array size: the remainder must go out as single jobs, not as an illegal small array
CASES.append({"min": 3, "max": 4, "plan": [[0, 0, 0, 0, 0, 0]]})
LATE_CASES = [{"min": 2, "max": 2, "plan": [[0, 0, 0]], "late": [0]}, {"min": 1, "max": 2, "plan": [[0, 0, 0]], "late": [0]},
              {"min": 2, "max": 2, "plan": [[0, 0, 0]], "late": [1]}, {"min": 2, "max": 3, "plan": [[0, 0]], "late": [0]}]


def scenario(case, prefix):
    import redun.job_array as ja

    from engine import threads as th

    shim_threading, shim_time = th.make_shims()
    saved = (ja.threading, ja.time)
    ja.threading, ja.time = shim_threading, shim_time
    s = th.Sched(prefix, horizon=6000)
    s.active = th.instrument(ja.JobArrayer.add_job, ja.JobArrayer.get_stale_descrs, ja.JobArrayer.submit_pending_jobs,
                             ja.JobArrayer._monitor_stale_jobs, ja.JobArrayer.start, ja.JobArrayer.stop)
    batches, errors, added = [], [], []
    res = {}

    def main():
        arr = ja.JobArrayer(submit_jobs=lambda jobs: batches.append(list(jobs)), on_error=lambda e: errors.append(e),
                            submit_interval=1.0, stale_time=3.0, min_array_size=case["min"], max_array_size=case["max"])
        s.state_fn = lambda: (sorted((d.key, len(v)) for d, v in list(arr.pending.items())), arr.num_pending, len(batches))
        counter = [0]

        def adder(plan, k):
            for descr in plan:
                counter[0] += 1
                j = FakeJob(f"{k}.{counter[0]}", descr)
                added.append(j)
                arr.add_job(j)

        ts = [th.CThread(target=adder, args=(p, k), name=f"adder{k}") for k, p in enumerate(case["plan"])]
        for t in ts:
            t.start()
        for t in ts:
            t.join()
        if case.get("late"):
            # the group goes stale, and while the monitor deals with it another adder shows up
            s.clock += 4.0
            late = th.CThread(target=adder, args=(case["late"], "late"), name="late-adder")
            late.start()
            late.join()
        # let the monitor make full passes with the clock beyond the stale time
        for _ in range(3):
            s.clock += 4.0
            target = s.rounds + 2
            s.block_until(lambda: s.rounds >= target or not arr._monitor_thread.is_alive(), ("main-wait-rounds",))
        arr.stop()
        res["num_pending"] = arr.num_pending
        res["left"] = sum(len(v) for v in arr.pending.values())

    try:
        failure = s.run(main)
    finally:
        ja.threading, ja.time = saved
    viol = []
    if failure and failure[0] in ("divergence", "stuck"):
        raise th.ReplayDivergence(str(failure))
    if failure:
        viol.append((f"{failure[0]}", f"{failure}"))
    for e in errors:
        viol.append((f"monitor-fails:{type(e).__name__}", f"on_error called with {e!r}"))
    if not failure:
        subm = Counter(j.id for b in batches for j in b)
        want = Counter(j.id for j in added)
        lost = want - subm
        dup = subm - want
        if not errors and lost:
            viol.append(("job-never-submitted", f"jobs {sorted(lost)} were added but never handed off; batches {batches}"))
        if dup:
            viol.append(("job-submitted-twice", f"jobs {sorted(dup)} handed off more than once; batches {batches}"))
        for b in batches:
            if len({(j.task.fullname, repr(sorted(j.get_options().items()))) for j in b}) > 1:
                viol.append(("mixed-batch", f"batch {b} mixes tasks or options: {[(j.task.fullname, j.get_options()) for j in b]}"))
            if len(b) > case["max"] or (len(b) != 1 and len(b) < case["min"]):
                viol.append(("batch-size", f"batch {b} has size {len(b)} with min {case['min']} max {case['max']}"))
        if "num_pending" in res and res["num_pending"] != res["left"]:
            viol.append(("num_pending-wrong", f"after activity stopped num_pending={res['num_pending']} but {res['left']} jobs are not yet handed off"))
    s.obs = [("batches", sorted(sorted(j.id for j in b) for b in batches)), ("errors", [type(e).__name__ for e in errors]), ("fail", str(failure))]
    return s, {"viol": viol, "outcome": repr(s.obs)}


def explore_case(arg):
    from engine import evloop

    case, bound, cap, start = arg
    viol = []
    outcomes = Counter()
    if start == "roots":
        ctl, _ = scenario(case, [])
        return {"prefixes": [[0] * i + [alt] for i, (n, _c) in enumerate(ctl.points) for alt in range(1, n)], "case": case}

    def on_exec(choices, res):
        outcomes[res["outcome"]] += 1
        for sig, d in res["viol"]:
            viol.append((sig, {"case": case, "choices": choices}, f"{case} schedule with {sum(1 for c in choices if c)} preemptions {choices}: {d}"))

    st = evloop.explore(lambda p: scenario(case, p), bound, cap, on_exec, start_prefix=start, selfcheck=(start == []))
    best = {}
    for sig, c, d in viol:
        k = sum(1 for x in c["choices"] if x)
        if sig not in best or k < best[sig][0]:
            best[sig] = (k, c, d)
    return {"viol": [(s, c, d) for s, (_, c, d) in best.items()], "stats": st.as_dict(), "states": st.states, "ntrans": len(st.transitions),
            "outcomes": len(outcomes), "case": case}


def run(ctx):
    from engine.common import check_harness_errors

    bound = ctx.pick(1, 2)
    cap = ctx.pick(20000, 400000)
    plan = [(c, bound) for c in CASES] + [(c, 2) for c in (LATE_CASES[:2] if ctx.quick else LATE_CASES)]
    if ctx.quick:
        # the races between an adder and the monitor need two preemptions: explore them on the three smallest harnesses
        plan += [(c, 2) for c in CASES if c["min"] == 2 and c["max"] == 2 and c["plan"] in ([[0, 1]], [[0], [0]], [[0], [1]])]
    roots = ctx.pmap(explore_case, [(c, b, cap, "roots") for c, b in plan], chunksize=1)
    check_harness_errors(roots)
    work = []
    for (c, b), r in zip(plan, roots):
        work.append((c, 0, cap, []))  # the default schedule itself
        work += [(c, b, cap, pre) for pre in r["prefixes"]]  # one subtree per first deviation
    res = ctx.pmap(explore_case, ctx.rotate(work), chunksize=4)
    check_harness_errors(res)
    ctx.add_results(res)
    states = set()
    for r in res:
        states |= {(repr(r["case"]), s) for s in r["states"]}
    execs = sum(r["stats"]["executions"] for r in res)
    return {"coverage": {
        "states": len(states), "transitions": sum(r["ntrans"] for r in res), "traces_validated_against_impl": execs,
        "preemption_bound": bound, "preemption_bound_small_harnesses": 2, "harnesses": len(CASES) + len(LATE_CASES[:2] if ctx.quick else LATE_CASES), "capped": any(r["stats"]["capped"] for r in res),
        "max_scheduling_points": max(r["stats"]["max_points"] for r in res), "distinct_outcomes": sum(r["outcomes"] for r in res),
        "exhaustive": not any(r["stats"]["capped"] for r in res),
        "rule": f"18 harnesses (3 size bounds x 6 add plans with 1-2 adder threads, 1-2 job descriptions, up to 3 jobs) plus 2 (thorough 4) with a late adder that "
        f"arrives while the monitor hands off an over-sized stale group, around the real JobArrayer "
        f"with its real monitor thread; every schedule with <= {bound} preemptions at instruction-level scheduling points (sys.monitoring) and at "
        "lock / event / join operations; logical clock driven past the stale time for 3 monitor passes; oracle: on_error never called, every "
        "job in exactly one batch, batches homogeneous and of legal size, num_pending equals the jobs not yet handed off, no deadlock",
        "samples": [CASES[0], CASES[5]],
    }, "assumptions": ["CPython bytecode interleaving (GIL) is the memory model; 'randomized stress' of the property text is sampling and not part of this check",
                       "jobs are light-weight stand-ins exposing task.fullname / name / namespace, task.script and get_options()"]}


def replay(ctx, case):
    _, res = scenario(case["case"], case["choices"])
    return [(s, d) for s, d in res["viol"]]
