"""C31 — where a value's bytes are kept (database, value store, file cache) is transparent: all histories of
record / get / delete-offloaded-bytes / reopen operations against a reference dict."""
from __future__ import annotations

import itertools
import os
import shutil

LEVEL = "model_checking"


class Blob:
    """User type whose values are cached in files via a FileCache proxy."""

    def __init__(self, data):
        self.data = data

    def __eq__(self, o):
        return isinstance(o, Blob) and o.data == self.data

    def __repr__(self):
        return f"Blob({len(self.data)})"


_registered = {}


def values(cache_dir):
    if "cls" not in _registered:
        from redun.value import FileCache

        class BlobType(FileCache):
            type = Blob
            type_name = "verif.c31.Blob"
            base_path = cache_dir

        _registered["cls"] = BlobType
    _registered["cls"].base_path = cache_dir
    return {"tiny": "a", "small": "b" * 60, "mid": "c" * 300, "big": "d" * 3000, "list": ["e" * 200, 7], "blob": Blob("f" * 100)}


CONFIGS = [{"min": 0, "max": 10**9}, {"min": 200, "max": 10**9}, {"min": 10**9, "max": 10**9}, {"min": 0, "max": 500}, {"min": 200, "max": 100},
           {"min": None, "max": 500}]


def work(arg):
    from redun.backends.db import RedunDatabaseError
    from redun.value import get_type_registry

    from engine import common, seams

    cfg, first, L = arg
    reg = get_type_registry()
    root = os.path.join(common.scratch_dir(), f"c31-{os.getpid()}")
    vnames = ["tiny", "small", "mid", "big", "list", "blob"]
    ops = [("rec", v) for v in vnames] + [("get", v) for v in vnames] + [("del", v) for v in ("mid", "big", "list", "blob")] + [("reopen",)]
    viol = []
    nh = nops = 0
    outcomes = set()
    for rest in itertools.product(ops, repeat=L - 1):
        hist = (first,) + rest
        if not any(o[0] == "rec" for o in hist):
            continue
        shutil.rmtree(root, ignore_errors=True)
        os.makedirs(os.path.join(root, "cache"))
        vals = values(os.path.join(root, "cache"))
        db = os.path.join(root, "redun.db")
        shutil.copyfile(seams.template_db(), db)
        conf = {"max_value_size": cfg["max"]}
        if cfg["min"] is not None:
            conf.update({"value_store_path": os.path.join(root, "store"), "value_store_min_size": cfg["min"]})
        b = seams.open_backend(db, **conf)
        model = {}  # hash -> ("present" | "absent", value)
        hashes = {}
        nh += 1
        try:
            for i, op in enumerate(hist):
                case = {"config": cfg, "history": [list(o) for o in hist[: i + 1]]}
                nops += 1
                if op[0] == "reopen":
                    seams.close_backend(b)
                    b = seams.open_backend(db, **conf)
                    continue
                name = op[1]
                v = vals[name]
                if op[0] == "rec":
                    data = reg.serialize(v)
                    too_big = len(data) > cfg["max"]
                    try:
                        h = b.record_value(v)
                        if too_big:
                            viol.append((f"oversize-accepted:{name}", case, f"{cfg} {hist[: i + 1]}: value of {len(data)} bytes accepted with max_value_size={cfg['max']}"))
                            break
                    except RedunDatabaseError:
                        outcomes.add("rejected")
                        if not too_big:
                            viol.append((f"record-rejected:{name}", case, f"{cfg} {hist[: i + 1]}: {len(data)} bytes rejected with max {cfg['max']}"))
                            break
                        b.session.rollback()
                        continue
                    if h != reg.get_hash(v):
                        viol.append((f"record-returns-wrong-hash:{name}", case, f"{cfg} {hist[: i + 1]}"))
                    hashes[name] = h
                    model[h] = ("present", v)
                elif op[0] == "get":
                    if name not in hashes:
                        h = reg.get_hash(v)
                        got, ok = b.get_value(h)
                        if ok:
                            viol.append((f"get-unrecorded-present:{name}", case, f"{cfg} {hist[: i + 1]}: never recorded but get_value returned {got!r}"))
                        continue
                    h = hashes[name]
                    try:
                        got, ok = b.get_value(h)
                    except Exception as e:  # noqa: BLE001
                        viol.append((f"get-raises:{name}:{type(e).__name__}", case, f"{cfg} {hist[: i + 1]}: {e!r}"))
                        break
                    st, want = model[h]
                    outcomes.add((st, ok))
                    if ok and (got != want or reg.get_hash(got) != h):
                        viol.append((f"get-returns-different-value:{name}", case, f"{cfg} {hist[: i + 1]}: got {str(got)[:40]!r} for hash of {str(want)[:40]!r}"))
                        break
                    if st == "present" and not ok:
                        viol.append((f"get-loses-value:{name}", case, f"{cfg} {hist[: i + 1]}: recorded value reads as absent"))
                        break
                    if st == "absent" and ok:
                        viol.append((f"get-resurrects-value:{name}", case, f"{cfg} {hist[: i + 1]}: bytes were deleted but get_value returned a value"))
                        break
                elif op[0] == "del":
                    if name not in hashes:
                        continue
                    h = hashes[name]
                    deleted = False
                    if name == "blob":
                        for f in os.listdir(os.path.join(root, "cache")):
                            os.remove(os.path.join(root, "cache", f))
                            deleted = True
                    elif b.value_store is not None:
                        p = b.value_store.get_value_path(h)
                        if os.path.exists(p):
                            os.remove(p)
                            deleted = True
                    if deleted:
                        model[h] = ("absent", model[h][1])
            else:
                # state invariant at the end of every history: every recorded value reads as the model says
                case = {"config": cfg, "history": [list(o) for o in hist] + [["get-all"]]}
                for name, h in hashes.items():
                    st, want = model[h]
                    got, ok = b.get_value(h)
                    nops += 1
                    if st == "present" and (not ok or got != want):
                        viol.append((f"get-loses-value:{name}", case, f"{cfg} {hist} then get: recorded value reads as {'absent' if not ok else 'another value'}"))
                    elif st == "absent" and ok:
                        viol.append((f"get-resurrects-value:{name}", case, f"{cfg} {hist} then get: bytes were deleted but get_value returned a value"))
        except Exception as e:  # noqa: BLE001
            viol.append((f"operation-raises:{type(e).__name__}", {"config": cfg, "history": [list(o) for o in hist]}, f"{cfg} {hist}: {e!r}"))
        finally:
            seams.close_backend(b)
    shutil.rmtree(root, ignore_errors=True)
    best = {}
    for sig, case, d in viol:
        if sig not in best or len(case["history"]) < len(best[sig][0]["history"]):
            best[sig] = (case, d)
    return {"viol": [(s, c, d) for s, (c, d) in best.items()], "nh": nh, "nops": nops, "outcomes": outcomes}


def boundary_leg(ctx):
    """Every serialized size in a window around each threshold (value_store_min_size, max_value_size): record, get, reopen, get."""
    from redun.backends.db import RedunDatabaseError
    from redun.value import get_type_registry

    from engine import common, seams

    reg = get_type_registry()
    root = os.path.join(common.scratch_dir(), f"c31b-{os.getpid()}")
    n = 0
    overhead = len(reg.serialize("")) if len(reg.serialize("x" * 10)) - len(reg.serialize("")) == 10 else None
    for cfg in ({"min": 200, "max": 10**9}, {"min": 64, "max": 10**9}, {"min": 0, "max": 300}, {"min": 200, "max": 300}):
        shutil.rmtree(root, ignore_errors=True)
        os.makedirs(root)
        db = os.path.join(root, "redun.db")
        shutil.copyfile(seams.template_db(), db)
        conf = {"max_value_size": cfg["max"], "value_store_path": os.path.join(root, "store"), "value_store_min_size": cfg["min"]}
        b = seams.open_backend(db, **conf)
        try:
            centers = {cfg["min"], cfg["max"]} - {0, 10**9}
            sizes = sorted({c + d for c in centers for d in range(-ctx.pick(45, 80), 8)})
            recorded = {}
            for size in sizes:
                v = "s" * max(0, size - (overhead or 0))
                data = reg.serialize(v)
                case = {"config": cfg, "serialized_size": len(data)}
                n += 1
                try:
                    h = b.record_value(v)
                except RedunDatabaseError:
                    b.session.rollback()
                    if len(data) <= cfg["max"]:
                        ctx.violation("boundary:record-rejected", case, f"{cfg}: {len(data)} bytes rejected")
                    continue
                if len(data) > cfg["max"]:
                    ctx.violation("boundary:oversize-accepted", case, f"{cfg}: value of {len(data)} bytes accepted")
                    continue
                recorded[h] = (v, case)
            for phase in ("same backend object", "reopened backend"):
                for h, (v, case) in recorded.items():
                    got, ok = b.get_value(h)
                    n += 1
                    if not ok or got != v:
                        ctx.violation(f"boundary:get-loses-value:{'near-min' if abs(case['serialized_size'] - cfg['min']) < 100 else 'near-max'}",
                                      dict(case, phase=phase), f"{cfg}: a value of {case['serialized_size']} serialized bytes was recorded without error "
                                      f"but reads back as {'absent' if not ok else 'another value'} ({phase})")
                        break
                seams.close_backend(b)
                b = seams.open_backend(db, **conf)
        finally:
            seams.close_backend(b)
    shutil.rmtree(root, ignore_errors=True)
    return n


def run(ctx):
    from engine import seams
    from engine.common import check_harness_errors

    seams.template_db()
    L = ctx.pick(3, 4)
    vnames = ["tiny", "small", "mid", "big", "list", "blob"]
    firsts = [("rec", v) for v in vnames] + [("get", v) for v in vnames[:1]] + [("reopen",)]
    items = [(c, f, L) for c in CONFIGS for f in firsts]
    res = ctx.pmap(work, ctx.rotate(items), chunksize=1)
    check_harness_errors(res)
    ctx.add_results(res)
    outcomes = set().union(*[r["outcomes"] for r in res])
    n_boundary = boundary_leg(ctx)
    return {"coverage": {
        "states": sum(r["nh"] for r in res), "transitions": sum(r["nops"] for r in res), "traces_validated_against_impl": sum(r["nh"] for r in res),
        "distinct_get_outcomes": len(outcomes), "boundary_operations": n_boundary, "history_length": L, "configs": len(CONFIGS), "exhaustive": True,
        "rule": f"for 6 backend configurations (value_store_min_size 0 / 200 / huge / no store, max_value_size small / huge) all histories of {L} "
        "operations over 6 values with serialized sizes straddling the thresholds (incl. a nested list and a FileCache-typed value): record, get, "
        "delete the offloaded bytes (value-store file / cache file), reopen the backend; oracle: reference dict hash -> value|absent; get returns the "
        "value hashing to the key, or absent after its offloaded bytes were removed; oversize values are rejected; boundary leg: every serialized size in a window of 45 (thorough 80) bytes below to 7 above each "
        "threshold is recorded and read back (same and reopened backend)",
        "samples": [{"config": i[0], "first": list(i[1])} for i in items[:3]],
    }, "assumptions": ["local value store; the backend is always reopened with the same configuration"]}
