"""C06 — each distinct call is handed to an executor at most once per execution; duplicates get the twin's result."""
LEVEL = "model_checking"


def run(ctx):
    from checks import sched_common

    cov = sched_common.run_property(ctx, "C06")
    cov["rule"] = ("sharp drivers with repeated calls created before/while/after the twin runs (same call reached through different "
                   "expressions), with and without limits, failing twins, cache_scope=NONE opt-out; all completion interleavings; "
                   "oracle: <=1 submission per (eval hash, context hash) per execution unless opted out, result equals the reference value")
    return {"coverage": cov, "assumptions": ["see C08 evidence: same controlled event loop and schedule space"]}


def replay(ctx, case):
    from checks import sched_common

    return sched_common.replay("C06", case)
