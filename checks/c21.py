"""C21 — upstream dataflow of arguments is recorded (required producers are linked, nothing that did not produce the value is)."""
LEVEL = "model_checking"


def run(ctx):
    from checks import graph_runner

    cov = graph_runner.run_property(ctx, "C21")
    from checks import c21_legs

    cov["call_shapes_checked"] = c21_legs.shapes_leg(ctx)
    cov["duplicate_expression_forms"] = c21_legs.dup_leg(ctx)
    cov["cache_replay_histories"], cov["cache_replay_links_seen"] = c21_legs.replay_leg(ctx)
    cov["rule"] = ("every generated program of size <= 4 that succeeds; for every evaluated task call site: one Argument row per passed parameter "
                   "(positional by position, keyword and defaulted parameters by key) whose value equals what the task received, and upstream "
                   "links with required <= recorded <= allowed, where required = the task calls that produce the argument through task calls, lazy "
                   "operators, getitem, nout and containers (and the taken cond branch), allowed additionally the cond predicate; plus every binding of 5 signatures (defaults, *args with keyword-only defaults, "
                   "keyword-only, **kwargs) against inspect.signature, and 12 connecting forms (direct, cond, seq, catch, containers, operators, "
                   "keyword) whose consumer is edited so it runs again while parent and producers are replayed from the cache: links equal those of an empty backend")
    return {"coverage": cov, "assumptions": ["dataflow through catch/map_/flat_map/apply_func arguments is not modelled (arguments built from them are "
                                             "only checked for value and row presence)"]}
