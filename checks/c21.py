"""C21 — upstream dataflow of arguments is recorded (required producers are linked, nothing that did not produce the value is)."""
LEVEL = "model_checking"


def run(ctx):
    from checks import graph_runner

    cov = graph_runner.run_property(ctx, "C21")
    cov["rule"] = ("every generated program of size <= 4 that succeeds; for every evaluated task call site: one Argument row per passed parameter "
                   "(positional by position, keyword and defaulted parameters by key) whose value equals what the task received, and upstream "
                   "links with required <= recorded <= allowed, where required = the task calls that produce the argument through task calls, lazy "
                   "operators, getitem, nout and containers (and the taken cond branch), allowed additionally the cond predicate")
    return {"coverage": cov, "assumptions": ["dataflow through catch/map_/flat_map/apply_func arguments is not modelled (arguments built from them are "
                                             "only checked for value and row presence)"]}
