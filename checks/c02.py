"""C02 — cached executions return what an uncached run would return, for every history of code edits, reverts,
version bumps, argument changes and input-file rewrites on one shared backend (exhaustive history DFS with DB snapshots)."""
from __future__ import annotations

import os

LEVEL = "model_checking"

# program -> (root task, editable tasks (2 bodies each unless listed), has arg, has file, versioned tasks)
PROGRAMS = {
    "chain": {"root": "top", "edit": ["top", "mid", "leaf"], "arg": True},
    "fan": {"root": "fanout", "edit": ["fanout", "leaf", "idt"], "arg": True},
    "catch": {"root": "guard", "edit": ["guard", "boom", "rec", "leaf"], "arg": True, "bodies": {"boom": [0, 1, 2]}},
    "file": {"root": "fmain", "edit": ["fmain", "summ"], "file": True},
    "file-nested": {"root": "fmain_n", "edit": ["fmain_n", "summ"], "file": True},
    "file-kw": {"root": "fmain_kw", "edit": ["fmain_kw", "summ"], "file": True},
    "versioned": {"root": "vtop", "edit": ["vtop"], "bump": ["vleaf"], "arg": True},
    "script": {"root": "stop", "edit": ["stop", "sh", "leaf"], "arg": True, "opts": {"sh": {"script": True}}},
    # a job pinned to a second executor; C28 also compares dry and real runs on a scheduler that LACKS that executor
    "badexec": {"root": "xtop", "edit": ["xtop", "xleaf", "leaf"], "arg": True, "opts": {"xleaf": {"executor": "alt"}}, "drop_executor": "alt"},
    # a Handle is created in the root and passed to a child task
    "handle": {"root": "hmain", "edit": ["hmain", "huse"], "arg": True},
    "shallow": {"root": "top", "edit": ["top", "mid", "leaf"], "arg": True, "opts": {"top": {"check_valid": "shallow"}}},
}


def actions(prog):
    P = PROGRAMS[prog]
    acts = []
    for t in P["edit"]:
        for b in P.get("bodies", {}).get(t, [0, 1]):
            acts.append(("edit", t, b))
    for t in P.get("bump", []):
        for v in (0, 1):
            acts.append(("bump", t, v))  # body v published as version str(v)
    if P.get("arg"):
        acts += [("arg", 0), ("arg", 1)]
    if P.get("file"):
        acts += [("file", 0), ("file", 1), ("file", 2), ("file", 3)]
    return acts


def initial(prog):
    return {"bodies": {}, "versions": {t: "0" for t in PROGRAMS[prog].get("bump", [])}, "arg": 0, "file": 0}


def apply(cfg, act):
    c = {"bodies": dict(cfg["bodies"]), "versions": dict(cfg["versions"]), "arg": cfg["arg"], "file": cfg["file"]}
    if act[0] == "edit":
        c["bodies"][act[1]] = act[2]
    elif act[0] == "bump":
        c["bodies"][act[1]] = act[2]
        c["versions"][act[1]] = str(act[2])
    elif act[0] == "arg":
        c["arg"] = act[1]
    elif act[0] == "file":
        c["file"] = act[1]
    return c


def cfg_key(cfg):
    return (tuple(sorted((k, v) for k, v in cfg["bodies"].items() if v)), tuple(sorted(cfg["versions"].items())), cfg["arg"], cfg["file"])


def write_file(path, content_id):
    """Content id i -> a file of size 10+i with logical mtime 1000+i (same id => same size and mtime => same File hash).
    Id 3 is id 0 rewritten 0.3 ms later with other bytes of the same length: another file state within the same millisecond."""
    if content_id == 3:
        with open(path, "w") as f:
            f.write("y" * 10)
        os.utime(path, ns=(1000 * 10**9 + 300_000, 1000 * 10**9 + 300_000))
        return
    with open(path, "w") as f:
        f.write("x" * (10 + content_id))
    os.utime(path, (1000 + content_id, 1000 + content_id))


def run_cfg(prog, cfg, db, fpath, salt):
    import wf.editable as E
    from engine import crash

    P = PROGRAMS[prog]
    E.define_all(cfg["bodies"], P.get("opts"), cfg["versions"])
    if P.get("file"):
        write_file(fpath, cfg["file"])
        arg = fpath
    else:
        arg = cfg["arg"]
    st, outs, _ = crash.run_workload(lambda env: [env.run(E.T(P["root"])(arg))], db, id_salt=salt)
    o = outs[0]
    res = ("ok", repr(o[1])) if o[0] == "ok" else (o[0], o[1] if len(o) > 1 else "")
    return res, dict(E.CALLS)


def dfs(arg):
    from engine import common, crash, seams

    prog, first, L = arg
    fpath = os.path.join(common.scratch_dir(), f"c02-input-{os.getpid()}.txt")
    acts = actions(prog)
    expected = {}
    viol = []
    stats = {"runs": 0, "histories": 0, "cache_hits": 0, "edits_between_runs": 0}
    states = set()

    def expect(cfg):
        k = cfg_key(cfg)
        if k not in expected:
            db = seams.fresh_db_path("c02exp")
            expected[k] = run_cfg(prog, cfg, db, fpath, 0)[0]
            seams.remove_db(db)
        return expected[k]

    def step(db, cfg, hist, depth):
        got, calls = run_cfg(prog, cfg, db, fpath, depth + 1)
        stats["runs"] += 1
        if not calls:
            stats["cache_hits"] += 1
        want = expect(cfg)
        states.add((cfg_key(cfg), tuple(h for h in hist)))
        if got != want:
            last = hist[-1] if hist else ("init",)
            prev = sorted({f"{h[0]}-{h[1]}" if h[0] in ("edit", "bump") else h[0] for h in hist[:-1]})
            sig = f"{prog}:last={last[0]}-{last[1] if len(last) > 1 else ''}:{'error' if want[0] != 'ok' or got[0] != 'ok' else 'value'}"
            viol.append((sig, {"program": prog, "history": [list(h) for h in hist]},
                         f"program {prog}, history {hist}: cached run returned {got}, an empty backend returns {want} (task functions run: {calls})"))
            return
        if depth >= L:
            stats["histories"] += 1
            return
        for a in acts:
            db2 = crash.copy_db(db, "c02")
            step(db2, apply(cfg, a), hist + (a,), depth + 1)
            seams.remove_db(db2)

    base = seams.fresh_db_path("c02base")
    cfg0 = initial(prog)
    got, _ = run_cfg(prog, cfg0, base, fpath, 0)
    if got != expect(cfg0):
        viol.append((f"{prog}:first-run", {"program": prog, "history": []}, f"{got} vs {expect(cfg0)}"))
    else:
        db1 = crash.copy_db(base, "c02")
        step(db1, apply(cfg0, first), (first,), 1)
        seams.remove_db(db1)
    seams.remove_db(base)
    best = {}
    for sig, case, d in viol:
        if sig not in best or len(case["history"]) < len(best[sig][0]["history"]):
            best[sig] = (case, d)
    return {"viol": [(s, c, d) for s, (c, d) in best.items()], "stats": stats, "nstates": len(states)}


def run(ctx):
    from engine import seams
    from engine.common import check_harness_errors

    seams.template_db()
    progs_ = ctx.pick(["chain", "catch", "file", "file-kw", "file-nested", "versioned"], list(PROGRAMS))
    L = ctx.pick(3, 4)
    work = [(p, a, L if p != "catch" or not ctx.quick else 3) for p in progs_ for a in actions(p)]
    res = ctx.pmap(dfs, ctx.rotate(work), chunksize=1)
    check_harness_errors(res)
    best = {}
    for r in res:
        for sig, case, d in r["viol"]:
            if sig not in best or len(case["history"]) < len(best[sig][0]["history"]):
                best[sig] = (case, d)
    for sig, (case, d) in best.items():
        ctx.violation(sig, case, d)
    runs = sum(r["stats"]["runs"] for r in res)
    return {"coverage": {
        "states": sum(r["nstates"] for r in res), "transitions": runs, "traces_validated_against_impl": runs,
        "complete_histories": sum(r["stats"]["histories"] for r in res),
        "runs_served_entirely_from_cache": sum(r["stats"]["cache_hits"] for r in res),
        "history_length": L, "program_names": progs_, "exhaustive": True,
        "rule": f"for each program (3-task chain, fan with duplicates, catch with recover, File consumer, versioned leaf, shallow top) every history "
        f"of {L} actions, each followed by a run on the shared backend (DB snapshot per history prefix): set any task to any of its bodies (edits and "
        "reverts), publish a body under a new version, change the argument, rewrite the input file (new size and mtime; or other bytes of the same size 0.3 ms later); oracle: each run's "
        "value or error equals the same configuration run on an empty backend",
        "samples": [{"program": w[0], "first_action": list(w[1])} for w in work[:3]],
    }, "assumptions": ["default completion schedule; a File's identity is (path, size, mtime) and rewrites change both size and mtime"]}
