"""C15 — evaluation keys separate every distinct call and only those; record kinds have distinct type tags."""
from __future__ import annotations

import inspect
import itertools
from collections import defaultdict

LEVEL = "exploration"

KINDS = ["O", "P", "D", "V", "K", "W"]  # positional-only, positional, defaulted, *args, keyword-only (defaulted), **kwargs


def signatures(max_params=3):
    """All valid parameter-kind sequences: O* P* D* V? K* W? with 1..max_params parameters."""
    out = []
    for n in range(1, max_params + 1):
        for combo in itertools.product(KINDS, repeat=n):
            order = [KINDS.index(k) for k in combo]
            if order != sorted(order):
                continue
            if combo.count("V") > 1 or combo.count("W") > 1:
                continue
            out.append(combo)
    return out


NAMES = ["a", "b", "c"]


def make_task(combo, config, idx, versioned=False):
    from redun import task

    params = []
    seen_star = False
    n_only = combo.count("O")
    for pi, (name, k) in enumerate(zip(NAMES, combo)):
        if k == "O":
            params.append(name)
            if pi == n_only - 1:
                params.append("/")
        elif k == "P":
            params.append(name)
        elif k == "D":
            params.append(f"{name}=5")
        elif k == "V":
            params.append(f"*{name}")
            seen_star = True
        elif k == "K":
            if not seen_star:
                params.append("*")
                seen_star = True
            params.append(f"{name}=6")
        elif k == "W":
            params.append(f"**{name}")
    src = f"def f_{idx}({', '.join(params)}):\n    return 0\n"
    ns: dict = {}
    exec(src, ns)
    if versioned:
        # a version-pinned task: every variant (signature, config_args) has the SAME task hash
        return task(name="fv", namespace="c15", version="1", config_args=list(config), source=src)(ns[f"f_{idx}"])
    return task(name=f"f_{idx}", namespace="c15", config_args=list(config), source=src)(ns[f"f_{idx}"])


def calls_for(combo):
    """All (args, kwargs) calls over values {0,1}: P/D positionally or by keyword, D/K omitted or given, extras for V and W."""
    names = NAMES[: len(combo)]
    per_param = []
    for name, k in zip(names, combo):
        opts = []
        if k == "O":
            opts = [("pos", v) for v in (0, 1, True)]
        elif k == "P":
            # values that are == but of different type (1 == True == 1.0, 0.0 == -0.0) must still give different keys
            opts = [("pos", v) for v in (0, 1, True, 1.0, -0.0)] + [("kw", v) for v in (0, 1, True)]
        elif k == "D":
            opts = [("omit", None)] + [("pos", v) for v in (0, 5)] + [("kw", v) for v in (0, 5)]
        elif k == "V":
            opts = [("var", ()), ("var", (0,)), ("var", (1,)), ("var", (0, 1)), ("var", (1, 1, 0))]
        elif k == "K":
            opts = [("omit", None), ("kw", 0), ("kw", 6)]
        elif k == "W":
            opts = [("kws", ()), ("kws", (("x", 0),)), ("kws", (("x", 1),)), ("kws", (("x", 0), ("y", 1))), ("kws", (("y", 1), ("x", 0)))]
        per_param.append(opts)
    out = []
    for choice in itertools.product(*per_param):
        args, kwargs, ok = [], [], True
        positional_open = True
        for name, k, (how, v) in zip(names, combo, choice):
            if how == "pos":
                if not positional_open:
                    ok = False
                    break
                args.append(v)
            elif how == "var":
                if v and not positional_open:
                    ok = False
                    break
                args.extend(v)
            else:
                if k in ("O", "P", "D"):
                    positional_open = False
                if how == "kw":
                    kwargs.append((name, v))
                elif how == "kws":
                    kwargs.extend(v)
        if not ok:
            continue
        out.append((tuple(args), tuple(kwargs)))
        if len(kwargs) >= 2:
            out.append((tuple(args), tuple(reversed(kwargs))))  # keyword order must not matter
    return out


def reference_identity(t, combo, config, args, kwargs):
    """What the call binds, minus config args: positional part keeps its positions, keyword part is order-free."""
    sig = inspect.signature(t.func)
    try:
        sig.bind(*args, **dict(kwargs))
    except TypeError:
        return None
    pos_names = [p.name for p in sig.parameters.values() if p.kind in (p.POSITIONAL_ONLY, p.POSITIONAL_OR_KEYWORD)]
    var_name = next((p.name for p in sig.parameters.values() if p.kind == p.VAR_POSITIONAL), None)
    pos = []
    for i, v in enumerate(args):
        name = pos_names[i] if i < len(pos_names) else var_name
        if name not in config:
            pos.append((i if name != var_name else "v", v))
    kw = dict(kwargs)
    for p in sig.parameters.values():  # defaults become keyword arguments
        if p.default is not p.empty and p.name not in kw and not (p.name in pos_names and pos_names.index(p.name) < len(args)):
            kw[p.name] = p.default
    kw = {k: v for k, v in kw.items() if k not in config}
    ty = lambda v: (type(v).__name__, repr(v))  # noqa: E731  typed: 1, True and 1.0 are different arguments
    return (tuple(ty(v) for _, v in pos), tuple(sorted((k, ty(v)) for k, v in kw.items())))


def work(arg):
    from redun.scheduler import get_arg_defaults
    from redun.task import hash_args_eval
    from redun.value import get_type_registry

    idx0, items = arg
    reg = get_type_registry()
    viol = []
    n = 0
    distinct = 0
    for j, (combo, config, versioned) in enumerate(items):
        t = make_task(combo, config, idx0 + j, versioned)
        by_hash = defaultdict(set)
        by_ident = defaultdict(set)
        example = {}
        for args, kwargs in calls_for(combo):
            ident = reference_identity(t, combo, config, args, kwargs)
            if ident is None:
                continue
            kw = dict(kwargs)
            merged = {**get_arg_defaults(t, args, kw), **kw}
            eh, ah = hash_args_eval(reg, t, args, merged)
            n += 1
            by_hash[eh].add(ident)
            by_ident[ident].add(eh)
            example.setdefault((eh, ident), (args, kwargs))
        distinct += len(by_ident)
        sigdesc = "".join(combo) + "/cfg=" + "".join(sorted(config)) + ("/versioned" if versioned else "")
        for eh, idents in by_hash.items():
            if len(idents) > 1:
                a, b = sorted(idents, key=repr)[:2]
                viol.append((f"collision:{sigdesc}", {"signature": sigdesc, "calls": [example[(eh, a)], example[(eh, b)]]},
                             f"signature {t.source.splitlines()[0]} config_args={list(config)}: calls {example[(eh, a)]} and "
                             f"{example[(eh, b)]} get the same eval_hash but bind {a} vs {b}"))
                break
        for ident, hs in by_ident.items():
            if len(hs) > 1:
                hs2 = sorted(hs)[:2]
                viol.append((f"split:{sigdesc}", {"signature": sigdesc, "calls": [example[(hs2[0], ident)], example[(hs2[1], ident)]]},
                             f"signature {t.source.splitlines()[0]} config_args={list(config)}: equivalent calls "
                             f"{example[(hs2[0], ident)]} and {example[(hs2[1], ident)]} get different eval_hashes"))
                break
    return {"viol": viol, "n": n, "distinct": distinct}


def run(ctx):
    from engine.common import check_harness_errors

    sigs = signatures(ctx.pick(3, 3))
    items = []
    for combo in sigs:
        names = NAMES[: len(combo)]
        for r in range(0, len(names) + 1):
            for config in itertools.combinations(names, r):
                items.append((combo, config, False))
                if len(combo) <= 2 or not ctx.quick:
                    items.append((combo, config, True))  # the same as a redefinition of one version-pinned task (shared task hash)
    items = ctx.rotate(items)
    chunks = [(i, items[i:i + 12]) for i in range(0, len(items), 12)]
    res = ctx.pmap(work, chunks, chunksize=1)
    check_harness_errors(res)
    ctx.add_results(res)
    # job-info placeholder and task hash sensitivity
    extra = jobinfo_and_taskhash(ctx)
    tags = type_tags(ctx)
    return {"coverage": {
        "evaluations": sum(r["n"] for r in res) + extra + tags,
        "distinct_nontrivial": sum(r["distinct"] for r in res),
        "signatures_x_config_sets": len(items),
        "exhaustive": True,
        "rule": "every parameter-kind sequence O*P*D*V?K*W? (O = positional-only) of <=3 parameters x every subset as config_args, each as its own task and as a "
        "redefinition of ONE version-pinned task (same task hash for every variant, all in one process) x every call over values {0,1} "
        "(positional or keyword, defaults omitted / given explicitly with the default value, 0-3 variadic extras, 0-2 extra keywords in both "
        "orders), arguments merged with get_arg_defaults as the scheduler does; oracle over all pairs of calls of one signature: eval_hash "
        "equal <=> (positional non-config values, keyword non-config values) equal; plus JobInfo placeholders, task-hash sensitivity and "
        "pairwise distinct leading type tags of hash_struct pre-images; distinct = distinct reference identities",
        "samples": [{"signature": "".join(c), "config_args": list(cfg), "versioned": v} for c, cfg, v in items[:3]],
    }, "assumptions": ["passing a parameter positionally vs by keyword is allowed to give different keys (the statement does not claim otherwise)"]}


def jobinfo_and_taskhash(ctx):
    from redun import task
    from redun.scheduler import JobInfo, get_arg_defaults
    from redun.task import hash_args_eval
    from redun.value import get_type_registry

    reg = get_type_registry()

    def g(a, info=JobInfo()):
        return a

    t1 = task(name="g", namespace="c15", source="def g body 1")(g)
    n = 0
    base = hash_args_eval(reg, t1, (1,), get_arg_defaults(t1, (1,), {}))
    filled = hash_args_eval(reg, t1, (1,), {"info": JobInfo("e", "j", "h", "a")})
    pos = hash_args_eval(reg, t1, (1, JobInfo("e2", "j2")), {})
    n += 3
    if not (base == filled == pos):
        ctx.violation("jobinfo-placeholder-changes-key", {"calls": "g(1) vs g(1, info=JobInfo(...))"}, f"{base} {filled} {pos}")
    other = hash_args_eval(reg, t1, (2,), get_arg_defaults(t1, (2,), {}))
    if other[0] == base[0]:
        ctx.violation("argument-ignored", {"calls": "g(1) vs g(2)"}, "same eval hash")
    t2 = task(name="g", namespace="c15", source="def g body 2")(g)
    b2 = hash_args_eval(reg, t2, (1,), get_arg_defaults(t2, (1,), {}))
    n += 2
    if b2[0] == base[0] or b2[1] != base[1]:
        ctx.violation("task-hash-not-in-key", {"calls": "g(1) with two bodies"}, f"{base} vs {b2}")
    return n


def type_tags(ctx):
    """Leading tags of the hash_struct pre-images used for the different record kinds must be pairwise distinct."""
    import redun.hashing as H
    from redun import task

    seen = []
    orig = H.hash_struct

    def spy(struct):
        if isinstance(struct, list) and struct and isinstance(struct[0], str):
            seen.append(struct[0])
        return orig(struct)

    import sys

    import redun.backends.db as rdb
    import redun.expression
    import redun.handle
    import redun.scheduler as rs

    mods = [H, sys.modules["redun.task"], sys.modules["redun.handle"], sys.modules["redun.expression"], rdb, rs]
    saved = [(m, m.hash_struct) for m in mods if hasattr(m, "hash_struct")]
    for m, _ in saved:
        m.hash_struct = spy
    try:
        kinds = {}
        from redun.value import get_type_registry

        reg = get_type_registry()

        def h(a):
            return a

        t = task(name="h", namespace="c15")(h)
        seen.clear(); t._calc_hash(); kinds["Task"] = seen[-1]
        seen.clear(); t.partial(1)._calc_hash(); kinds["PartialTask"] = seen[-1]
        seen.clear(); H.hash_arguments(reg, (1,), {}); kinds["TaskArguments"] = seen[-1]
        seen.clear(); H.hash_eval(reg, "x", (1,), {}); kinds["Eval"] = seen[-1]
        seen.clear(); H.hash_call_node("t", "a", "r", []); kinds["CallNode"] = seen[-1]
        seen.clear(); H.hash_tag("e", "k", 1, []); kinds["Tag"] = seen[-1]
        seen.clear(); redun.handle.Handle("nm"); kinds["Handle"] = seen[-1]
        seen.clear(); rs.ErrorValue(ValueError("x")).get_hash(); kinds["ErrorValue"] = seen[-1]
        seen.clear(); t(1).get_hash(); kinds["TaskExpression"] = seen[-1]
        seen.clear(); (t(1) + 1).get_hash(); kinds["SimpleExpression"] = seen[-1]
        seen.clear(); rs.Thread("p", "e", None); kinds["Thread"] = seen[-1]
    finally:
        for m, f in saved:
            m.hash_struct = f
    vals = list(kinds.values())
    if len(set(vals)) != len(vals):
        ctx.violation("type-tags-not-distinct", kinds, f"leading tags {kinds}")
    return len(kinds)
