"""Shared crash / transient-fault enumeration for C22 and C03.

For one workload: number the commit points and statements of a clean run, then for EVERY commit point crash the
process there and for EVERY statement inject one transient OperationalError; check the file afterwards and run
recovery variants (same program, each task edited) against the same variants on an empty backend.
Each finding is tagged with the property it belongs to.
"""
from __future__ import annotations

from engine import crash, seams


def _E():
    import wf.editable as E

    return E


WORKLOADS = {
    # name: (root task, arg, tasks that can be edited, backend conf)
    "chain": ("top", 1, ["top", "mid", "leaf"], None),
    "fan-dup": ("fanout", 1, ["fanout", "leaf", "idt"], None),
    "caught-failure": ("guard", 1, ["guard", "boom", "rec", "leaf"], None),
    "value-store": ("usebig", 1, ["usebig", "big"], "vs"),
    "chain-shallow": ("top", 1, ["top", "mid", "leaf"], None),
}

SHALLOW = {"chain-shallow": {"top": {"check_valid": "shallow"}}}


def backend_conf(kind, db_path):
    if kind == "vs":
        return {"value_store_path": db_path + ".vs", "value_store_min_size": "200"}
    return None


def make_workload(wname):
    E = _E()
    root, arg, _, _ = WORKLOADS[wname]

    def workload(env):
        return [env.run(E.T(root)(arg))]

    return workload


def norm(outs):
    return None if outs is None else [(o[0], repr(o[1:])) for o in outs]


def variants_of(wname):
    _, _, editable, _ = WORKLOADS[wname]
    return [("same", {})] + [(f"edit-{t}", {t: 1}) for t in editable]


def expected_for(wname, bodies):
    E = _E()
    E.define_all(bodies, SHALLOW.get(wname))
    db = seams.fresh_db_path("exp")
    st, outs, inj = crash.run_workload(make_workload(wname), db, backend_conf=backend_conf(WORKLOADS[wname][3], db))
    calls = dict(E.CALLS)
    seams.remove_db(db)
    return norm(outs), calls


def clean_run(wname):
    E = _E()
    E.define_all({}, SHALLOW.get(wname))
    db = seams.fresh_db_path("clean")
    st, outs, inj = crash.run_workload(make_workload(wname), db, backend_conf=backend_conf(WORKLOADS[wname][3], db))
    d = crash.dump(db)
    cons = crash.consistency(db)
    seams.remove_db(db)
    return {"M": inj.commits, "P": inj.stmts, "outs": norm(outs), "dump": d, "cons": cons, "stmts": inj.stmt_log}


def stmt_kind(tokens):
    t = [x.upper() if i == 0 else x for i, x in enumerate(tokens)]
    if not t:
        return "?"
    if t[0] == "SELECT":
        return "SELECT"
    return " ".join(t[:3])


def explore_points(arg):
    """Worker: one workload, a list of crash points and a list of fault points."""
    wname, crash_points, fault_points, clean, expected, double_faults = arg
    E = _E()
    wl = make_workload(wname)
    bkind = WORKLOADS[wname][3]
    variants = variants_of(wname)
    viol = []  # (prop, sig, case, detail)
    runs = 0
    nontriv = set()

    def recover_and_check(db, label, case, props):
        nonlocal runs
        for vname, bodies in variants:
            db2 = crash.copy_db(db, "rec")
            if bkind == "vs":
                import os
                import shutil

                if os.path.isdir(db + ".vs"):
                    shutil.copytree(db + ".vs", db2 + ".vs")
            E.define_all(bodies, SHALLOW.get(wname))
            st, outs, _ = crash.run_workload(wl, db2, backend_conf=backend_conf(bkind, db2), id_salt=1)
            runs += 1
            exp_out, exp_calls = expected[vname]
            if norm(outs) != exp_out:
                for p in props:
                    viol.append((p, f"{label}:recovery-result:{wname}:{vname}", dict(case, variant=vname),
                                 f"{wname} {case}: recovery run '{vname}' returned {norm(outs)}, empty-backend run returns {exp_out}"))
            cons = crash.consistency(db2)
            if cons:
                viol.append(("C22", f"{label}:inconsistent-after-recovery:{wname}:{cons[0][0]}", dict(case, variant=vname),
                             f"{wname} {case}: after recovery '{vname}': {cons}"))
            if vname == "same":
                part = crash.partial_records(clean["dump"], crash.dump(db2))
                if part:
                    viol.append(("C22", f"{label}:partial-records-after-recovery:{wname}:{'+'.join(sorted(part))}", dict(case, variant=vname),
                                 f"{wname} {case}: after re-running the same program some records are still incomplete compared "
                                 f"with the same records of a clean run: {part}"))
            sub = crash.subtree_invariant(db2)
            if sub:
                viol.append(("C03", f"{label}:subtree-invariant-after-recovery:{wname}:{sub[0][0]}", dict(case, variant=vname),
                             f"{wname} {case}: after recovery '{vname}' call nodes violate the subtree-task invariant: {sub[:3]}"))
            seams.remove_db(db2)

    for k in crash_points:
        E.define_all({}, SHALLOW.get(wname))
        db = seams.fresh_db_path("crash")
        st, outs, inj = crash.run_workload(wl, db, crash_at=k, backend_conf=backend_conf(bkind, db))
        runs += 1
        case = {"workload": wname, "crash_before_commit": k}
        if st != "crashed":
            raise RuntimeError(f"crash point {k} of {wname} did not fire (M={clean['M']})")
        nontriv.add(("crash", k))
        cons = crash.consistency(db)
        if cons:
            viol.append(("C22", f"crash:inconsistent:{wname}:{cons[0][0]}", case, f"{wname} crash before commit {k}: {cons}"))
        sub = crash.subtree_invariant(db)
        if sub:
            viol.append(("C03", f"crash:subtree-invariant:{wname}:{sub[0][0]}", case,
                         f"{wname} crash before commit {k} leaves call nodes whose recorded subtree tasks are incomplete: {sub[:3]}"))
        recover_and_check(db, "crash", case, ["C22", "C03"] if wname in SHALLOW else ["C22"])
        seams.remove_db(db)

    for p in fault_points:
        ps = p if isinstance(p, tuple) else (p,)
        E.define_all({}, SHALLOW.get(wname))
        db = seams.fresh_db_path("fault")
        st, outs, inj = crash.run_workload(wl, db, fault_ats=ps, backend_conf=backend_conf(bkind, db))
        runs += 1
        kinds = "+".join(stmt_kind(clean["stmts"][q - 1]) if q - 1 < len(clean["stmts"]) else "?" for q in ps)
        case = {"workload": wname, "fault_at_statement": list(ps), "statement": kinds}
        if not inj.fired:
            continue  # the run issued fewer statements than the clean one (possible after an earlier retry)
        nontriv.add(("fault", ps))
        if norm(outs) != clean["outs"]:
            viol.append(("C22", f"fault:run-result:{wname}:{kinds}", case,
                         f"{wname}: one transient OperationalError at statement {ps} ({kinds}) -> run returned {norm(outs)} instead of {clean['outs']}"))
        cons = crash.consistency(db)
        if cons:
            viol.append(("C22", f"fault:inconsistent:{wname}:{cons[0][0]}", case, f"{wname} fault at {ps} ({kinds}): {cons}"))
        if norm(outs) == clean["outs"]:
            diff = crash.dump_diff(clean["dump"], crash.dump(db))
            if diff:
                viol.append(("C22", f"fault:records-differ:{wname}:{'+'.join(sorted(diff))}", case,
                             f"{wname}: after a retried statement {ps} ({kinds}) the recorded rows differ from a clean run: {diff}"))
        sub = crash.subtree_invariant(db)
        if sub:
            viol.append(("C03", f"fault:subtree-invariant:{wname}:{sub[0][0]}", case,
                         f"{wname} fault at {ps} ({kinds}): subtree-task invariant broken: {sub[:3]}"))
        recover_and_check(db, "fault", case, ["C22", "C03"] if wname in SHALLOW else ["C22"])
        seams.remove_db(db)
    return {"viol": viol, "runs": runs, "nontriv": len(nontriv)}


def run_property(ctx, prop, workloads):
    from engine.common import check_harness_errors

    seams.template_db()
    work = []
    meta = {}
    for w in workloads:
        clean = clean_run(w)
        if clean["cons"]:
            ctx.violation(f"clean-run-inconsistent:{w}", {"workload": w}, str(clean["cons"]))
        expected = {vn: expected_for(w, bodies) for vn, bodies in variants_of(w)}
        M, P = clean["M"], clean["P"]
        meta[w] = {"commit_points": M, "statements": P, "variants": [v for v, _ in variants_of(w)]}
        cps = list(range(1, M + 1))
        fps = list(range(1, P + 1))
        step = 6
        for i in range(0, len(cps), step):
            work.append((w, cps[i:i + step], [], clean, expected, False))
        for i in range(0, len(fps), step):
            work.append((w, [], fps[i:i + step], clean, expected, False))
        if not ctx.quick:
            # double faults: two consecutive statements, and the same statement on its first retry (p, p+1)
            pairs = [(p, p + 1) for p in range(1, P)] + [(p, p + 2) for p in range(1, P - 1)]
            for i in range(0, len(pairs), step):
                work.append((w, [], pairs[i:i + step], clean, expected, True))
    res = ctx.pmap(explore_points, ctx.rotate(work), chunksize=1)
    check_harness_errors(res)
    best = {}
    for r in res:
        for p, sig, case, detail in r["viol"]:
            if p == prop and sig not in best:
                best[sig] = (case, detail)
    for sig, (case, detail) in best.items():
        ctx.violation(sig, case, detail)
    runs = sum(r["runs"] for r in res)
    return {
        "evaluations": runs,
        "distinct_nontrivial": sum(r["nontriv"] for r in res),
        "workloads": meta,
        "exhaustive": True,
        "samples": [{"workload": w, **m} for w, m in meta.items()][:3],
    }
