"""Shared whole-database oracles for C20 (Merkle call graph) and C21 (upstream dataflow) over the generated program family."""
from __future__ import annotations

import sqlite3
from collections import Counter

CALL_KINDS = ("call", "kwcall", "partial")
STATS: Counter = Counter()


def db_snapshot(db):
    con = sqlite3.connect(db)
    try:
        q = lambda s: con.execute(s).fetchall()  # noqa: E731
        return {
            "jobs": q("select id, parent_id, task_hash, call_hash, cached, execution_id, end_time from job"),
            "execs": q("select id, job_id from execution"),
            "nodes": q("select call_hash, task_hash, args_hash, value_hash, task_name from call_node"),
            "edges": q("select parent_id, child_id, call_order from call_edge"),
            "args": q("select arg_hash, call_hash, value_hash, arg_position, arg_key from argument"),
            "argres": q("select arg_hash, result_call_hash from argument_result"),
            "values": q("select value_hash, type from value"),
            "tags": q("select entity_type, entity_id, key, value, is_current from tag"),
            "tasks": q("select hash, namespace, name from task"),
        }
    finally:
        con.close()


def merkle_violations(snap, observed_jobs, backend):
    """C20 oracles. observed_jobs: [(job id, parent id or None, task fullname, recorded provenance?)] seen by the harness."""
    from redun.hashing import hash_call_node

    out = []
    nodes = {n[0]: n for n in snap["nodes"]}
    children = {}
    for p, c, order in snap["edges"]:
        children.setdefault(p, []).append(c)
    jobs = {j[0]: j for j in snap["jobs"]}
    kids_of_job = {}
    for j in snap["jobs"]:
        if j[1] is not None:
            kids_of_job.setdefault(j[1], []).append(j)
    for jid, j in jobs.items():
        call_hash = j[3]
        if j[6] is None:
            continue  # job never finished (workflow stopped)
        if call_hash is None:
            out.append(("job-without-call-node", f"finished job {jid[-4:]} has no call node"))
            continue
        if call_hash not in nodes:
            out.append(("job-call-node-missing", f"job {jid[-4:]} points to call node {call_hash[:8]} which is not recorded"))
            continue
        n = nodes[call_hash]
        if n[1] != j[2]:
            out.append(("call-node-task-mismatch", f"job {jid[-4:]} task {j[2][:8]} but its call node has task {n[1][:8]}"))
        rec_children = children.get(call_hash, [])
        if hash_call_node(n[1], n[2], n[3], rec_children) != call_hash:
            out.append(("call-hash-not-merkle", f"call node {call_hash[:8]} ({n[4]}) != hash(task, args, result, recorded children {[c[:8] for c in rec_children]})"))
        if not j[4]:
            # a job that really ran: its recorded children are exactly the finished child jobs' call nodes
            exp = Counter(k[3] for k in kids_of_job.get(jid, []) if k[3] is not None)
            if Counter(rec_children) != exp:
                out.append(("child-edges-differ-from-job-tree", f"call node {call_hash[:8]} ({n[4]}) has children {sorted(c[:8] for c in rec_children)}, "
                            f"its job's finished child jobs have call nodes {sorted(c[:8] for c in exp.elements())}"))
    # job tree and execution root mirror what the harness observed
    obs = {(jid, pid) for jid, pid, _, prov in observed_jobs if prov}
    rec = {(j[0], j[1]) for j in snap["jobs"]}
    if obs != rec:
        out.append(("job-tree-differs", f"recorded (job, parent) pairs differ from the jobs the scheduler created: only observed "
                    f"{sorted((a[-4:], (b or '')[-4:]) for a, b in obs - rec)[:4]}, only recorded {sorted((a[-4:], (b or '')[-4:]) for a, b in rec - obs)[:4]}"))
    roots = {jid for jid, pid, _, prov in observed_jobs if pid is None and prov}
    for ex, root in snap["execs"]:
        if root not in roots:
            out.append(("execution-root-wrong", f"execution {ex[-4:]} root job {str(root)[-4:]} is not a parent-less job the scheduler created"))
    # every value deserializes to something that hashes to its key
    from redun.value import get_type_registry

    reg = get_type_registry()
    for vh, vtype in snap["values"]:
        if vtype in ("redun.ErrorValue", "redun.Traceback", "redun.Frame"):
            continue  # contain tracebacks with job references; hashing them needs the live objects
        val, ok = backend.get_value(vh)
        if not ok:
            out.append(("value-not-readable", f"value {vh[:8]} of type {vtype} cannot be read back"))
            continue
        try:
            h = reg.get_hash(val)
        except Exception as e:  # noqa: BLE001
            out.append(("value-hash-raises", f"value {vh[:8]} ({vtype}): {e!r}"))
            continue
        if h != vh:
            out.append((f"value-key-mismatch:{vtype}", f"value row {vh[:8]} ({vtype}) deserializes to {val!r} whose hash is {h[:8]}"))
    return out


# ------------------------------------------------------------------------------------------------ C21
def single_val(outs):
    vs = [o for o in outs if o[0] == "val"]
    return vs[0][1].v if len(outs) == 1 and vs else None


def fullname(name):
    return {"inc": "vf.inc", "ident": "vf.ident", "add": "vf.add", "twice": "vf.twice", "fan": "vf.fan", "mklist": "vf.mklist", "dflt": "vf.dflt",
            "pair": "vf.pair", "recover": "vf.recover", "fail": "vf.fail"}.get(name, "vf." + name)


def call_key(ast):
    """(task fullname, positional values, keyword values) of a call site, computed with the reference interpreter; None if not a plain value."""
    from engine import progs

    k = ast[0]
    if k == "call":
        vals = [single_val(progs.ref(a)) for a in ast[2]]
        if any(v is None for v in vals):
            return None
        kw = {"y": 11} if ast[1] == "dflt" else {}
        return (fullname(ast[1]), tuple(map(repr, vals)), tuple(sorted((k2, repr(v)) for k2, v in kw.items())))
    if k == "kwcall":
        vals = [single_val(progs.ref(a)) for a in ast[2]]
        kws = {kk: single_val(progs.ref(v)) for kk, v in ast[3]}
        if any(v is None for v in vals) or any(v is None for v in kws.values()):
            return None
        return (fullname(ast[1]), tuple(map(repr, vals)), tuple(sorted((k2, repr(v)) for k2, v in kws.items())))
    if k == "partial":
        vals = [single_val(progs.ref(a)) for a in list(ast[2]) + list(ast[3])]
        if any(v is None for v in vals):
            return None
        return (fullname(ast[1]), tuple(map(repr, vals)), ())
    if k == "nout":
        v = single_val(progs.ref(ast[1]))
        return None if v is None else ("vf.pair", (repr(v),), ())
    return None


def _union(parts):
    r, a = set(), set()
    for r1, a1 in parts:
        if r1 is None:
            return None, None
        r |= r1
        a |= a1
    return r, a


def is_concrete(ast):
    """True if the builder produces a plain Python value for this AST (no lazy expression inside)."""
    from engine import progs

    if ast[0] == "c":
        return True
    if ast[0] in ("list", "tuple", "set", "dict", "nt", "dc"):
        return all(is_concrete(c) for c in progs._children(ast))
    return False


def producers(ast):
    """(required, allowed_extra): call sites (as call keys) that produce the value of `ast`; (None, None) = not modelled."""
    from engine import progs

    k = ast[0]
    if k == "c":
        return set(), set()
    # the program builder wraps a concrete left operand in ident() so that the lazy operator is exercised at all
    if k == "getitem" and is_concrete(ast[1]):
        return {("vf.ident", (repr(single_val(progs.ref(ast[1]))),), ())}, set()
    if k == "op+" and is_concrete(ast[1]) and is_concrete(ast[2]):
        return {("vf.ident", (repr(single_val(progs.ref(ast[1]))),), ())}, set()
    if k in ("call", "kwcall", "partial", "nout"):
        ck = call_key(ast)
        return ({ck} if ck else set()), set()
    if k == "op+":
        return _union([producers(ast[1]), producers(ast[2])])
    if k == "getitem":
        return producers(ast[1])
    if k in ("list", "tuple", "set", "seq"):
        return _union([producers(x) for x in ast[1]])
    if k == "dict":
        return _union([producers(x) for _, x in ast[1]])
    if k in ("nt", "dc"):
        return _union([producers(ast[1]), producers(ast[2])])
    if k in ("forkjoin", "tags"):
        r, a = producers(ast[1])
        if r is None:
            return None, None
        return set(), r | a  # through scheduler tasks: accept the link either way
    if k == "cond":
        p = single_val(progs.ref(ast[1]))
        taken = ast[2] if p else ast[3]
        r, a = producers(taken)
        rp, ap = producers(ast[1])
        if r is None or rp is None:
            return None, None
        return r, a | rp | ap
    return None, None  # forms whose dataflow we do not model (catch, map_, apply_func, ...)


def consumers(ast, out):
    """All evaluated call sites (AST nodes) with their argument ASTs."""
    from engine import progs

    k = ast[0]
    if k == "cond":
        p = single_val(progs.ref(ast[1]))
        consumers(ast[1], out)
        if p is not None:
            consumers(ast[2] if p else ast[3], out)
        return
    if k in ("call", "kwcall", "partial"):
        out.append(ast)
    for c in progs._children(ast):
        if k != "cond":
            consumers(c, out)


def dataflow_violations(ast, snap, key2call, backend):
    """C21 oracles for one successfully executed program."""
    out = []
    cons = []
    consumers(ast, cons)
    nodes = {n[0]: n for n in snap["nodes"]}
    njobs = Counter(j[3] for j in snap["jobs"])
    args_by_call = {}
    for arg_hash, call_hash, value_hash, pos, key in snap["args"]:
        args_by_call.setdefault(call_hash, []).append((arg_hash, value_hash, pos, key))
    ups = {}
    for arg_hash, rc in snap["argres"]:
        ups.setdefault(arg_hash, set()).add(rc)
    for node in cons:
        ck = call_key(node)
        if ck is None or ck not in key2call:
            continue
        call_hash = key2call[ck]
        if njobs.get(call_hash, 0) != 1:
            continue  # the same call was made more than once (inside task bodies, duplicates): its node was recorded by whichever came first
        if call_hash not in nodes:
            out.append(("consumer-call-node-missing", f"{ck}"))
            continue
        recorded = args_by_call.get(call_hash, [])
        # positional / keyword argument ASTs of this call site
        if node[0] == "call":
            arg_asts = [(i, None, a) for i, a in enumerate(node[2])]
        elif node[0] == "kwcall":
            arg_asts = [(i, None, a) for i, a in enumerate(node[2])] + [(None, kk, v) for kk, v in node[3]]
        else:
            arg_asts = [(i, None, a) for i, a in enumerate(list(node[2]) + list(node[3]))]
        for pos, key, a in arg_asts:
            row = [r for r in recorded if r[2] == pos and r[3] == key]
            if len(row) != 1:
                out.append(("argument-row-missing", f"{ck}: argument pos={pos} key={key} has {len(row)} rows (recorded: {[(r[2], r[3]) for r in recorded]})"))
                continue
            arg_hash, value_hash, _, _ = row[0]
            from engine import progs

            want = single_val(progs.ref(a))
            got, ok = backend.get_value(value_hash)
            if want is not None and (not ok or progs.typed_key(got) != progs.typed_key(want)):
                out.append(("argument-value-differs", f"{ck}: argument pos={pos} key={key} recorded {got!r}, the task received {want!r}"))
            req, extra = producers(a)
            if req is None:
                continue
            STATS["arguments_checked"] += 1
            if req:
                STATS["arguments_with_required_upstream"] += 1
            req_h = {key2call[r] for r in req if r in key2call}
            allowed_h = req_h | {key2call[r] for r in extra if r in key2call}
            rec_h = ups.get(arg_hash, set())
            if not req_h <= rec_h:
                out.append((f"upstream-missing:{a[0]}", f"{ck}: argument pos={pos} key={key} built from {a!r} lacks upstream link(s) to "
                            f"{sorted(r for r in req if r in key2call and key2call[r] not in rec_h)}"))
            elif not rec_h <= allowed_h and extra is not None and a[0] not in ("forkjoin", "tags"):
                out.append((f"upstream-spurious:{a[0]}", f"{ck}: argument pos={pos} key={key} built from {a!r} is linked to call nodes that did not produce it"))
        if ck[0] == "vf.dflt":
            row = [r for r in recorded if r[3] == "y"]
            if len(row) != 1:
                out.append(("default-not-recorded-by-key", f"{ck}: defaulted parameter y has {len(row)} argument rows"))
    return out
