"""C30 — File / Dir / FileSet hashes track the filesystem: explicit enumeration of all operation histories up to a depth on
real files, with invariants after every operation."""
from __future__ import annotations

import itertools
import os
import shutil

LEVEL = "model_checking"

FILE_CLASSES = ["File", "ContentFile", "IFile"]
DIR_CLASSES = ["Dir", "ContentDir", "IDir", "FileSet", "ContentFileSet", "IFileSet"]


def cls(name):
    import redun.file as rf

    return getattr(rf, name)


def fresh_hash(cname, path):
    """Hash of a freshly constructed object, computed twice (must be deterministic and must not raise)."""
    h1 = cls(cname)(path).hash
    h2 = cls(cname)(path).hash
    return h1, h2


FILE_OPS = [("w", 0), ("w", 1), ("wempty", 0), ("a", 0), ("a", 1), ("cp", 0, 1), ("cp", 1, 0), ("rm", 0), ("rm", 1), ("touch", 0), ("extw", 0), ("extrm", 0), ("exttouch", 0), ("exttouch-sub", 0),
            ("parent-becomes-file",)]  # the directory holding path 1 is removed and a regular file takes its name


def run_file_history(arg):
    """One class, all histories with a given first op."""
    from engine import common

    cname, first, L = arg
    C = cls(cname)
    immutable = cname.startswith("I")
    content = cname.startswith("Content")
    root = os.path.join(common.scratch_dir(), f"c30-{cname}-{os.getpid()}")
    viol = []
    n_hist = n_ops = 0
    outcomes = set()
    for rest in itertools.product(FILE_OPS, repeat=L - 1):
        for k in range(0, L):  # every prefix length is covered as its own history by the k-loop of shorter products; run full ones only
            pass
        hist = (first,) + rest
        shutil.rmtree(root, ignore_errors=True)
        os.makedirs(root)
        paths = [os.path.join(root, "f0.txt"), os.path.join(root, "d", "f1.txt")]
        os.makedirs(os.path.join(root, "d"))
        objs = [C(p) for p in paths]
        try:
            for o in objs:
                o.hash  # recorded hash of the (missing) file
        except Exception as e:  # noqa: BLE001
            viol.append((f"{cname}:hashing-raises:missing-path:{type(e).__name__}", {"class": cname, "history": []},
                         f"{cname}: hashing a missing path raised {e!r}"))
            break
        size = 0
        t = 1000
        bytes_seen = {}
        states_seen = {}
        n_hist += 1
        for i, op in enumerate(hist):
            kinds = "+".join(sorted({o_[0] for o_ in hist[: i + 1]}))
            case = {"class": cname, "history": [list(o_) for o_ in hist[: i + 1]]}
            try:
                k = op[0]
                mediated = None
                blocked = os.path.isfile(os.path.join(root, "d"))  # path 1 cannot exist or be created any more
                if blocked and ((k in ("w", "a") and op[1] == 1) or (k == "cp" and 1 in op[1:])):
                    continue
                if k == "parent-becomes-file":
                    if blocked:
                        continue
                    shutil.rmtree(os.path.join(root, "d"))
                    with open(os.path.join(root, "d"), "w") as f:
                        f.write("not a directory")
                elif k == "w":
                    size += 1
                    objs[op[1]].write("x" * size)
                    mediated = op[1]
                elif k == "wempty":
                    objs[op[1]].write("")  # creates or truncates the file without moving the stream position
                    mediated = op[1]
                elif k == "a":
                    if not os.path.exists(paths[op[1]]):
                        continue
                    objs[op[1]].write("y", mode="a")
                    mediated = op[1]
                elif k == "cp":
                    if not os.path.exists(paths[op[1]]):
                        continue
                    ret = objs[op[1]].copy_to(objs[op[2]])
                    mediated = op[2]
                    if ret.hash != fresh_hash(cname, paths[op[2]])[0]:
                        viol.append((f"{cname}:copy_to-returns-stale-hash", case, f"{cname} {hist[: i + 1]}: copy_to result hash differs from a fresh object's"))
                elif k == "rm":
                    if not os.path.exists(paths[op[1]]):
                        continue
                    objs[op[1]].remove()
                elif k == "touch":
                    if not os.path.exists(paths[op[1]]):
                        continue
                    t += 10
                    objs[op[1]].touch((t, t))
                elif k == "extw":
                    size += 1
                    with open(paths[op[1]], "w") as f:
                        f.write("z" * size)
                elif k == "extrm":
                    if not os.path.exists(paths[op[1]]):
                        continue
                    os.remove(paths[op[1]])
                elif k == "exttouch":
                    if not os.path.exists(paths[op[1]]):
                        continue
                    t += 10
                    os.utime(paths[op[1]], (t, t))
                elif k == "exttouch-sub":
                    # the modification time moves by 0.3 ms inside one millisecond: another filesystem state
                    if not os.path.exists(paths[op[1]]):
                        continue
                    st = os.stat(paths[op[1]])
                    ns = st.st_mtime_ns + (300_000 if st.st_mtime_ns % 1_000_000 < 500_000 else -300_000)
                    os.utime(paths[op[1]], ns=(st.st_atime_ns, ns))
                n_ops += 1
            except Exception as e:  # noqa: BLE001
                viol.append((f"{cname}:op-raises:{op[0]}:{type(e).__name__}", case, f"{cname} {hist[: i + 1]}: {e!r}"))
                break
            # invariants
            for j, (o, p) in enumerate(zip(objs, paths)):
                try:
                    f1, f2 = fresh_hash(cname, p)
                except Exception as e:  # noqa: BLE001
                    exists = os.path.exists(p)
                    viol.append((f"{cname}:hashing-raises:{'missing' if not exists else 'existing'}-path:{type(e).__name__}", case,
                                 f"{cname} {hist[: i + 1]}: hashing {'missing' if not exists else 'existing'} path raised {e!r}"))
                    continue
                if f1 != f2:
                    viol.append((f"{cname}:hash-not-deterministic", case, f"{cname} {hist[: i + 1]}: two fresh objects hash differently"))
                if mediated == j and o.hash != f1:
                    viol.append((f"{cname}:stale-hash-after:{op[0]}", case, f"{cname} {hist[: i + 1]}: after {op} through redun the object's hash is not the fresh hash"))
                try:
                    valid = o.is_valid()
                except Exception as e:  # noqa: BLE001
                    viol.append((f"{cname}:is_valid-raises:{type(e).__name__}", case, f"{cname} {hist[: i + 1]}: is_valid raised {e!r}"))
                    continue
                want = True if immutable else (o._hash == f1)
                outcomes.add((cname, valid))
                if valid != want:
                    viol.append((f"{cname}:is_valid-wrong:says-{valid}", case,
                                 f"{cname} {hist[: i + 1]}: is_valid()={valid} but recorded hash {'==' if o._hash == f1 else '!='} current hash"))
                if not content and not immutable and os.path.exists(p):
                    # independent view of "the current filesystem state" of a stat-hashed file: size and modification time
                    st = os.stat(p)
                    fp = (st.st_size, st.st_mtime_ns // 1000)  # microseconds: redun hashes the float st_mtime, whose resolution is ~0.24 us today
                    for (j2, fp2), h2 in states_seen.items():
                        if j2 == j and fp2 != fp and h2 == f1:
                            viol.append((f"{cname}:hash-same-for-different-file-states:{op[0]}", case,
                                         f"{cname} {hist[: i + 1]}: (size, mtime in us) {fp2} and {fp} of one path hash equal"))
                    states_seen[(j, fp)] = f1
                if content and os.path.exists(p):
                    data = open(p, "rb").read()
                    key = (j, data)
                    if key in bytes_seen and bytes_seen[key] != f1:
                        viol.append((f"{cname}:content-hash-changed-without-byte-change", case, f"{cname} {hist[: i + 1]}: same bytes, different hash"))
                    bytes_seen[key] = f1
                    for (j2, d2), h2 in bytes_seen.items():
                        if j2 == j and d2 != data and h2 == f1:
                            viol.append((f"{cname}:content-hash-same-for-different-bytes", case, f"{cname} {hist[: i + 1]}"))
    shutil.rmtree(root, ignore_errors=True)
    best = {}
    for sig, case, d in viol:
        if sig not in best or len(case["history"]) < len(best[sig][0]["history"]):
            best[sig] = (case, d)
    return {"viol": [(s, c, d) for s, (c, d) in best.items()], "hist": n_hist, "ops": n_ops, "outcomes": outcomes}


DIR_OPS = [("w", "a"), ("w", "b"), ("w", "s/c"), ("rm", "a"), ("rm", "b"), ("touch", "a"), ("cpdir",), ("rmdir",), ("mkdir",), ("wdest", "x")]


def run_dir_history(arg):
    from engine import common

    cname, first, L = arg
    C = cls(cname)
    immutable = cname.startswith("I")
    is_dir = "Dir" in cname
    root = os.path.join(common.scratch_dir(), f"c30d-{cname}-{os.getpid()}")
    viol = []
    n_hist = n_ops = 0
    outcomes = set()

    def mk(path):
        return C(path) if is_dir else C(os.path.join(path, "**"))

    for rest in itertools.product(DIR_OPS, repeat=L - 1):
        hist = (first,) + rest
        shutil.rmtree(root, ignore_errors=True)
        d = os.path.join(root, "d")
        d2 = os.path.join(root, "d2")
        os.makedirs(d)
        os.makedirs(d2)
        D = mk(d)
        D.hash
        size = 0
        t = 1000
        n_hist += 1
        for i, op in enumerate(hist):
            case = {"class": cname, "history": [list(o_) for o_ in hist[: i + 1]]}
            try:
                k = op[0]
                if k == "w":
                    size += 1
                    p = os.path.join(d, op[1])
                    if not os.path.isdir(os.path.dirname(p)):
                        if not os.path.isdir(d):
                            continue
                        os.makedirs(os.path.dirname(p), exist_ok=True)
                    D.classes.File(p).write("x" * size)
                elif k == "rm":
                    p = os.path.join(d, op[1])
                    if not os.path.exists(p):
                        continue
                    os.remove(p)
                elif k == "touch":
                    p = os.path.join(d, op[1])
                    if not os.path.exists(p):
                        continue
                    t += 10
                    os.utime(p, (t, t))
                elif k == "wdest":
                    # a file that exists only in the copy destination (left from an earlier copy, or put there by something else)
                    if not is_dir:
                        continue
                    os.makedirs(d2, exist_ok=True)
                    with open(os.path.join(d2, op[1]), "w") as f:
                        f.write("only-in-destination")
                elif k == "cpdir":
                    if not is_dir or not os.path.isdir(d):
                        continue
                    dest = C(d2)
                    dest.hash  # the destination object has looked at itself before (cached hash)
                    ret = D.copy_to(dest)
                    if ret.hash != C(d2).hash:
                        viol.append((f"{cname}:Dir.copy_to-returns-stale-hash", case,
                                     f"{cname} {hist[: i + 1]}: the Dir returned by copy_to has hash {ret.hash[:8]}, a fresh Dir of the destination {C(d2).hash[:8]}"))
                elif k == "rmdir":
                    if not is_dir or not os.path.isdir(d):
                        continue
                    D.rmdir(recursive=True)
                    if D.hash != mk(d).hash:
                        viol.append((f"{cname}:stale-hash-after:rmdir", case, f"{cname} {hist[: i + 1]}"))
                elif k == "mkdir":
                    if not is_dir or os.path.isdir(d):
                        continue
                    D.mkdir()
                    if D.hash != mk(d).hash:
                        viol.append((f"{cname}:stale-hash-after:mkdir", case, f"{cname} {hist[: i + 1]}"))
                n_ops += 1
            except Exception as e:  # noqa: BLE001
                viol.append((f"{cname}:op-raises:{op[0]}:{type(e).__name__}", case, f"{cname} {hist[: i + 1]}: {e!r}"))
                break
            try:
                f1, f2 = mk(d).hash, mk(d).hash
            except Exception as e:  # noqa: BLE001
                viol.append((f"{cname}:hashing-raises:{type(e).__name__}", case, f"{cname} {hist[: i + 1]}: {e!r}"))
                continue
            if f1 != f2:
                viol.append((f"{cname}:hash-not-deterministic", case, f"{cname} {hist[: i + 1]}"))
            try:
                valid = D.is_valid()
            except Exception as e:  # noqa: BLE001
                viol.append((f"{cname}:is_valid-raises:{type(e).__name__}", case, f"{cname} {hist[: i + 1]}: {e!r}"))
                continue
            want = True if immutable else (D._hash == f1)
            outcomes.add((cname, valid))
            if valid != want:
                viol.append((f"{cname}:is_valid-wrong:says-{valid}", case, f"{cname} {hist[: i + 1]}: is_valid()={valid}, recorded {'==' if D._hash == f1 else '!='} current"))
    shutil.rmtree(root, ignore_errors=True)
    best = {}
    for sig, case, d_ in viol:
        if sig not in best or len(case["history"]) < len(best[sig][0]["history"]):
            best[sig] = (case, d_)
    return {"viol": [(s, c, d_) for s, (c, d_) in best.items()], "hist": n_hist, "ops": n_ops, "outcomes": outcomes}


def run(ctx):
    from engine.common import check_harness_errors

    L = ctx.pick(3, 4)
    work_f = [(c, op, L) for c in FILE_CLASSES for op in FILE_OPS]
    work_d = [(c, op, L) for c in DIR_CLASSES for op in DIR_OPS]
    res = ctx.pmap(run_file_history, ctx.rotate(work_f), chunksize=1) + ctx.pmap(run_dir_history, ctx.rotate(work_d), chunksize=1)
    check_harness_errors(res)
    ctx.add_results(res)
    outcomes = set().union(*[r["outcomes"] for r in res])
    hist = sum(r["hist"] for r in res)
    ops = sum(r["ops"] for r in res)
    return {"coverage": {
        "states": hist, "transitions": ops, "traces_validated_against_impl": hist, "history_length": L,
        "distinct_validity_outcomes": len(outcomes), "exhaustive": True,
        "rule": f"for each of 3 file classes all histories of {L} operations over 2 paths (write, empty write, append, copy_to, remove, touch through redun; the directory of one path replaced by a regular file; "
        "external write / remove / touch / touch moving the mtime by 0.3 ms inside one millisecond) and for each of 6 directory / file-set classes all histories over a directory tree (member write, remove, "
        "touch, sub-directory member, Dir.copy_to, rmdir, mkdir) on a real filesystem; after every operation: hashing never raises and is "
        "deterministic, an object written/copied through redun has the fresh hash, is_valid() <=> recorded hash == current hash (always true for "
        "immutable classes), content hashes change exactly when bytes change, stat-hashed files never hash equal for two different (size, mtime) states of one path",
        "samples": [{"class": w[0], "first_op": list(w[1])} for w in work_f[:2] + work_d[:1]],
    }, "assumptions": ["local filesystem only; every write uses a size never used before, touches use explicit logical times"]}
