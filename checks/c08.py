"""C08 — resource limits are never exceeded; units are returned exactly once (controlled event loop)."""
LEVEL = "model_checking"


def run(ctx):
    from checks import sched_common

    cov = sched_common.run_property(ctx, "C08")
    cov["rule"] = ("sharp driver programs x every limits configuration x every completion interleaving (full tree when it "
                   "fits under the cap, else all schedules within the deviation bound); invariant checked at every choice point: "
                   "units held by in-flight jobs <= limit, limits_used >= units held, end-of-run accounting, one release per job")
    return {"coverage": cov, "assumptions": [
        "task functions are run by the harness at the moment the job reports completion",
        "schedule space = position of each completion report in the scheduler's event sequence (all scheduler state is main-thread only)"]}
