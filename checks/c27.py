"""C27 — task options follow the documented precedence: definition < exported by ancestors < call time < scheduler imposed;
exported names accumulate down the job tree; expression-valued options are evaluated before use."""
from __future__ import annotations

import itertools

LEVEL = "exploration"

DEFS = ["none", "k=d", "export k=x", "export j=y"]          # definition-time ("export j=y": ANOTHER option name is exported at this level)
CALLS = ["none", "options k=c", "export_options k=e", "options k=expr", "export_options k=nested-expr"]  # call-time


def build(levels, tag):
    """levels: [(def, call)] for L1..L3. Returns (root expression, reference options per level)."""
    from redun import task

    import wf.tasks as T

    n = len(levels)
    REG = {}

    def make_body(i):
        def body():
            if i == n:
                return i
            return call_level(i + 1)
        return body

    def call_level(i):
        d, c = levels[i - 1]
        t = REG[i]
        if c == "options k=c":
            t = t.options(k=f"c{i}")
        elif c == "export_options k=e":
            t = t.export_options(k=f"e{i}")
        elif c == "options k=expr":
            t = t.options(k=T.inc(100 + i))
        elif c == "export_options k=nested-expr":
            t = t.export_options(k={"a": [T.inc(200 + i)]})  # the expression sits inside a container, no top-level option is one
        return t()

    for i in range(1, n + 1):
        d, c = levels[i - 1]
        kw = {}
        if d == "k=d":
            kw["k"] = f"d{i}"
        elif d == "export k=x":
            kw["export_options"] = {"k": f"x{i}"}
        elif d == "export j=y":
            kw["export_options"] = {"j": f"y{i}"}
        f = make_body(i)
        f.__name__ = f"L{i}"
        REG[i] = task(name=f"L{i}_{tag}", namespace="c27", **kw)(f)
    # reference
    ref = {}
    exported_names: set = set()
    parent_opts: dict = {}
    for i in range(1, n + 1):
        d, c = levels[i - 1]
        opts = {}
        names = set(exported_names)
        if d == "k=d":
            opts["k"] = f"d{i}"
        elif d == "export k=x":
            opts["k"] = f"x{i}"
            names.add("k")
        elif d == "export j=y":
            opts["j"] = f"y{i}"
            names.add("j")
        for k in exported_names:
            if k in parent_opts:
                opts[k] = parent_opts[k]
        if c == "options k=c":
            opts["k"] = f"c{i}"
        elif c == "export_options k=e":
            opts["k"] = f"e{i}"
            names.add("k")
        elif c == "options k=expr":
            opts["k"] = 101 + i
        elif c == "export_options k=nested-expr":
            opts["k"] = {"a": [201 + i]}
            names.add("k")
        ref[f"c27.L{i}_{tag}"] = (opts.get("k", "<unset>"), opts.get("j", "<unset>"))
        exported_names, parent_opts = names, opts
    return call_level(1), ref


def concrete(v):
    """Option value as the executor sees it, with any unevaluated expression made visible (and comparable)."""
    from redun.expression import Expression
    from redun.utils import map_nested_value

    return map_nested_value(lambda x: "<UNEVALUATED EXPRESSION>" if isinstance(x, Expression) else x, v)


def work(arg):
    from engine import evloop

    idx0, chunk = arg
    viol = []
    n = 0
    kinds = set()
    for j, (levels, mode) in enumerate(chunk):
        tag = f"{idx0}_{j}"
        expr, ref = build(levels, tag)
        env = evloop.Env([])
        seen = {}
        imposed = {}
        orig = env.ctl.on_submit

        def on_submit(job, script=False, seen=seen, imposed=imposed):
            o = job.get_options()
            seen[job.task.fullname] = (concrete(o.get("k", "<unset>")), o.get("j", "<unset>"))
            imposed[job.task.fullname] = (repr(o.get("cache_scope")), o.get("prov", True))
            return orig(job, script)

        env.ctl.on_submit = on_submit
        try:
            out = env.run(expr, **({"cache": False} if mode == "nocache" else {}))
        finally:
            env.close()
        n += 1
        case = {"levels": [list(l) for l in levels], "mode": mode}
        if out[0] != "ok":
            viol.append((f"run-fails:{mode}", case, f"{case}: {out!r}"))
            continue
        got = {k: v for k, v in seen.items() if k.startswith("c27.L")}
        kinds.add(tuple(sorted(map(repr, ref.values()))))
        if got != ref:
            lvl = next(k for k in sorted(ref) if got.get(k) != ref[k])
            i = int(lvl.split(".L")[1][0])
            viol.append((f"option-precedence:L{i}:def={levels[i - 1][0]}:call={levels[i - 1][1]}", case,
                         f"{case}: option k seen by the executor per job {got}, documented precedence gives {ref}"))
        if mode == "nocache":
            bad = {k: v for k, v in imposed.items() if k.startswith("c27.L") and "CSE" not in v[0]}
            if bad:
                viol.append(("imposed-cache-scope-missing", case, f"{case}: run(cache=False) but jobs ran with {bad}"))
    return {"viol": viol[:40], "n": n, "kinds": kinds}


def prov_leg(ctx):
    """An ancestor with prov=False forces prov=False and cache_scope NONE on every descendant, over any call-time setting."""
    from redun import task

    from engine import evloop

    n = 0
    for leaf_call in ({}, {"prov": True}, {"cache_scope": "BACKEND"}, {"prov": True, "cache_scope": "BACKEND"}):
        def leaf():
            return 1

        def mid():
            t = REG["leaf"].options(**leaf_call) if leaf_call else REG["leaf"]
            return t()

        def top():
            return REG["mid"]()

        REG = {}
        REG["leaf"] = task(name="pleaf", namespace="c27")(leaf)
        REG["mid"] = task(name="pmid", namespace="c27")(mid)
        REG["top"] = task(name="ptop", namespace="c27", prov=False)(top)
        env = evloop.Env([])
        seen = {}
        orig = env.ctl.on_submit

        def on_submit(job, script=False):
            o = job.get_options()
            seen[job.task.fullname] = (o.get("prov", True), repr(o.get("cache_scope")))
            return orig(job, script)

        env.ctl.on_submit = on_submit
        try:
            env.run(REG["top"]())
        finally:
            env.close()
        n += 1
        for name in ("c27.pmid", "c27.pleaf"):
            if name not in seen or seen[name][0] is not False or "NONE" not in seen[name][1]:
                ctx.violation(f"prov-false-not-imposed:{name}:{sorted(leaf_call)}", {"leaf_call_options": leaf_call},
                              f"top has prov=False, leaf called with {leaf_call}: jobs ran with (prov, cache_scope) {seen}")
    return n


def nocache_leg(ctx):
    """run(cache=False) is imposed by the scheduler over the cache options of every other layer: definition (cache=False, cache_scope),
    call time (options(cache=True)) and export by the ancestor; first execution fills the backend, second runs with cache=False."""
    from redun import task

    from engine import evloop

    n = 0
    for leaf_def, leaf_call, top_export in itertools.product(
            ({}, {"cache": False}, {"cache_scope": "NONE"}, {"cache_scope": "CSE"}),
            ({}, {"cache": True}, {"cache_scope": "BACKEND"}),
            (None, "call", "definition")):
        def leaf():
            return 1

        def top():
            t = REG["leaf"].options(**leaf_call) if leaf_call else REG["leaf"]
            return t()

        REG = {}
        REG["leaf"] = task(name="nleaf", namespace="c27", **leaf_def)(leaf)
        REG["top"] = task(name="ntop", namespace="c27", **({"export_options": {"cache": True}} if top_export == "definition" else {}))(top)
        env = evloop.Env([])
        seen = {}
        orig = env.ctl.on_submit

        def on_submit(job, script=False):
            if env.ctl.run_index == 1:
                seen[job.task.fullname] = repr(job.get_options().get("cache_scope"))
            return orig(job, script)

        env.ctl.on_submit = on_submit
        try:
            root = REG["top"].export_options(cache=True) if top_export == "call" else REG["top"]
            o1 = env.run(root())
            o2 = env.run(root(), cache=False)
        finally:
            env.close()
        n += 1
        case = {"leaf_definition": leaf_def, "leaf_call_options": leaf_call, "ancestor_exports_cache_true": top_export}
        if o1 != ("ok", 1) or o2 != ("ok", 1):
            ctx.violation("nocache:run-fails", case, f"{case}: {o1!r} {o2!r}")
            continue
        for name in ("c27.ntop", "c27.nleaf"):
            if name not in seen:
                ctx.violation(f"nocache:job-replayed-from-backend:{name}", case,
                              f"{case}: second execution ran with cache=False but {name} was not handed to an executor (jobs submitted: {seen})")
            elif "CSE" not in seen[name]:
                ctx.violation(f"nocache:imposed-cache-scope-missing:{name}", case, f"{case}: run(cache=False) but {name} ran with cache_scope {seen[name]}")
    return n


def task_value_leg(ctx):
    """A Task VALUE carrying call-time options / exported options is produced by one task and called by another; in the second
    execution the value is replayed from the backend (deserialized) before it is called: its options and exported names still apply."""
    from redun import task

    from engine import evloop

    n = 0
    for how in ("options", "export_options", "options+export_options"):
        def leaf2():
            return 1

        def mid2():
            return REG["leaf2"]()

        def mk():
            t = REG["mid2"]
            if how == "options":
                return t.options(k="c")
            if how == "export_options":
                return t.export_options(k="e")
            return t.options(j="c").export_options(k="e")

        def app(t):
            return t()

        def main():
            return REG["app"](REG["mk"]())

        REG = {}
        REG["leaf2"] = task(name="vleaf", namespace="c27", cache=False)(leaf2)
        REG["mid2"] = task(name="vmid", namespace="c27", cache=False)(mid2)
        REG["mk"] = task(name="vmk", namespace="c27")(mk)
        REG["app"] = task(name="vapp", namespace="c27", cache=False)(app)
        REG["main"] = task(name="vmain", namespace="c27", cache=False)(main)
        env = evloop.Env([])
        seen = {}
        orig = env.ctl.on_submit

        def on_submit(job, script=False):
            o = job.get_options()
            seen[(env.ctl.run_index, job.task.fullname)] = (o.get("k", "<unset>"), o.get("j", "<unset>"))
            return orig(job, script)

        env.ctl.on_submit = on_submit
        try:
            outs = [env.run(REG["main"]()) for _ in range(2)]
        finally:
            env.close()
        n += 2
        want_mid = {"options": ("c", "<unset>"), "export_options": ("e", "<unset>"), "options+export_options": ("e", "c")}[how]
        want_leaf = {"options": ("<unset>", "<unset>"), "export_options": ("e", "<unset>"), "options+export_options": ("e", "<unset>")}[how]
        for ri in (0, 1):
            case = {"task_value_built_with": how, "execution": ri + 1}
            if outs[ri] != ("ok", 1):
                ctx.violation("task-value:run-fails", case, f"{case}: {outs[ri]!r}")
                continue
            if ri == 1 and (1, "c27.vmk") in seen:
                continue  # the producer ran again: nothing was deserialized, nothing to check
            got = (seen.get((ri, "c27.vmid")), seen.get((ri, "c27.vleaf")))
            if got != (want_mid, want_leaf):
                ctx.violation(f"task-value:options-lost:{how}:{'replayed-value' if ri else 'live-value'}", case,
                              f"{case}: the called task and its child ran with (k, j) = {got}, expected {(want_mid, want_leaf)}")
    return n


def run(ctx):
    from engine import seams
    from engine.common import check_harness_errors

    seams.template_db()
    per_level = list(itertools.product(DEFS, CALLS))
    combos = [(lv, "normal") for lv in itertools.product(per_level, repeat=3)]
    combos += [(lv, "nocache") for lv in itertools.product(per_level, repeat=2)]
    if ctx.quick:
        # quick: the third level only observes (plain / plain definition option, no or plain call-time option); every placement at levels 1-2
        combos = [c for c in combos if len(c[0]) == 2 or (c[0][2][0] in ("none", "k=d") and c[0][2][1] in ("none", "options k=c"))]
    combos = ctx.rotate(combos)
    chunks = [(i, combos[i:i + 30]) for i in range(0, len(combos), 30)]
    res = ctx.pmap(work, chunks, chunksize=1)
    check_harness_errors(res)
    ctx.add_results(res)
    n2 = prov_leg(ctx) + nocache_leg(ctx) + task_value_leg(ctx)
    kinds = set().union(*[r["kinds"] for r in res])
    return {"coverage": {
        "evaluations": sum(r["n"] for r in res) + n2, "distinct_nontrivial": len(kinds), "exhaustive": True,
        "rule": "every chain of 3 jobs where each level independently sets option k at definition time (plain or exported) and/or at call time "
        "(options, export_options, an expression-valued option inc(..), or an exported container option with an expression nested inside); the options each job is submitted with are read by the interposed "
        "executor and compared with the documented precedence; plus run(cache=False) chains (imposed cache scope) and a prov=False ancestor "
        "(imposed prov / cache scope over any call-time setting); a backend filled by a first execution followed by run(cache=False) for every combination of the leaf's "
        "definition cache option (none, cache=False, cache_scope NONE/CSE), call-time cache option (none, cache=True, cache_scope BACKEND) and an ancestor exporting "
        "cache=True (at call or definition): every job is handed to an executor again and runs with cache scope CSE; Task values built with options / export_options, produced by one task and called by another, live and replayed from the backend; distinct = distinct option-value vectors",
        "samples": [{"levels": [list(l) for l in c[0]], "mode": c[1]} for c in combos[:2]],
    }, "assumptions": ["default completion schedule"]}
