"""C19 — map_nested_value / iter_nested_value traverse and rebuild nested values faithfully; nested expressions are evaluated."""
from __future__ import annotations

import itertools
from collections import Counter

LEVEL = "exploration"


class X:
    """Marker leaf that stands for 'an expression goes here'."""

    def __repr__(self):
        return "X"

    def __hash__(self):
        return 7

    def __eq__(self, o):
        return isinstance(o, X)


class Ver(tuple):
    """A tuple subclass that is not a namedtuple (like time.struct_time or os.stat_result): an opaque leaf for both functions."""

    def bump(self):
        return Ver(self[:-1] + (self[-1] + 1,))

    def __repr__(self):
        return f"Ver{tuple(self)!r}"


LEAVES = [1, "a", X(), Ver((3, 4))]


def mk(kind, kids):
    import wf.tasks as T

    if kind == "list":
        return list(kids)
    if kind == "tuple":
        return tuple(kids)
    if kind == "nt":
        return T.Pt(*kids)
    if kind == "ntsub":
        return T.PtSub(*kids)
    if kind == "set":
        return set(kids)
    if kind == "dictv":
        return {f"k{i}": v for i, v in enumerate(kids)}
    if kind == "dictk":
        return {k: i for i, k in enumerate(kids)}
    if kind == "dc":
        return T.DC(*kids)
    if kind == "fdc":
        return T.FDC(*kids)
    if kind == "dcn":
        o = T.DCN(kids[0])
        o.b = kids[1]
        return o
    if kind == "dcd":
        return T.DCD(kids[0])
    if kind == "fdcn":
        o = T.FDCN(kids[0])
        object.__setattr__(o, "b", kids[1])
        return o
    raise AssertionError(kind)


ARITY = {"list": (0, 1, 2), "tuple": (0, 1, 2), "nt": (2,), "ntsub": (2,), "set": (0, 1, 2), "dictv": (0, 1, 2), "dictk": (1, 2), "dc": (2,), "fdc": (2,),
         "dcn": (2,), "fdcn": (2,), "dcd": (1,)}


def hashable(v):
    try:
        hash(v)
        return True
    except TypeError:
        return False


def gen(depth, children):
    out = []
    for kind, ars in ARITY.items():
        for n in ars:
            for kids in itertools.product(children, repeat=n):
                if kind in ("set", "dictk"):
                    if not all(hashable(k) for k in kids) or len(set(kids)) != len(kids):
                        continue
                try:
                    out.append((kind, mk(kind, kids)))
                except TypeError:
                    continue
    return out


def ref_children(v):
    import dataclasses

    t = type(v)
    if t in (list, tuple, set) or (isinstance(v, tuple) and hasattr(v, "_fields")):
        return list(v)
    if t is dict:
        return list(v.keys()) + list(v.values())
    if dataclasses.is_dataclass(t):
        return [getattr(v, f.name) for f in dataclasses.fields(v)]
    return None


def ref_leaves(v):
    ch = ref_children(v)
    if ch is None:
        return [v]
    return [x for c in ch for x in ref_leaves(c)]


def ref_map(f, v):
    import dataclasses

    t = type(v)
    if t is list:
        return [ref_map(f, x) for x in v]
    if t is tuple:
        return tuple(ref_map(f, x) for x in v)
    if isinstance(v, tuple) and hasattr(v, "_fields"):
        return t(*[ref_map(f, x) for x in v])
    if t is set:
        return {ref_map(f, x) for x in v}
    if t is dict:
        return {ref_map(f, k): ref_map(f, x) for k, x in v.items()}
    if dataclasses.is_dataclass(t):
        o = t(**{fl.name: ref_map(f, getattr(v, fl.name)) for fl in dataclasses.fields(v) if fl.init})
        for fl in dataclasses.fields(v):
            if not fl.init:
                object.__setattr__(o, fl.name, ref_map(f, getattr(v, fl.name)))
        return o
    return f(v)


def shape(v, depth=0):
    ch = ref_children(v)
    if ch is None or depth > 1:
        return type(v).__name__
    return type(v).__name__ + "[" + ",".join(sorted({shape(c, depth + 1) for c in ch})) + "]"


def check_value(v):
    """Check v; if one of its children already fails, report the child (smallest culprit, coarse signature)."""
    ch = ref_children(v)
    if ch is not None:
        for c in ch:
            r = check_value(c)
            if r:
                return r
    return check_one(v)


def check_one(v):
    from engine.progs import typed_key
    from redun.utils import iter_nested_value, map_nested_value

    f = lambda leaf: ("m", leaf)  # noqa: E731  injective and hashable
    seen = []

    def g(leaf):
        seen.append(leaf)
        return f(leaf)

    try:
        got = map_nested_value(g, v)
    except Exception as e:  # noqa: BLE001
        return (f"map-raises:{type(e).__name__}:{type(v).__name__}", f"map_nested_value raised {e!r} on {v!r}")
    want = ref_map(f, v)
    if typed_key(got) != typed_key(want):
        return (f"map-wrong:{type(v).__name__}", f"map_nested_value({v!r}) = {got!r}, expected {want!r}")
    it = list(iter_nested_value(v))
    if Counter(map(repr, it)) != Counter(map(repr, ref_leaves(v))):
        return (f"iter-wrong:{type(v).__name__}", f"iter_nested_value({v!r}) yields {it!r}, expected {ref_leaves(v)!r}")
    if Counter(map(repr, seen)) != Counter(map(repr, it)):
        return (f"map-iter-disagree:{type(v).__name__}", f"{v!r}: map visited {seen!r}, iterator yields {it!r}")
    return None


def sched_leg(values):
    """Scheduler.evaluate must replace nested expressions (X -> ident(7)) everywhere."""
    import wf.tasks as T
    from engine import evloop
    from engine.progs import typed_key

    viol = []
    n = 0
    for v in values:
        if not any(isinstance(x, X) for x in ref_leaves(v)):
            continue
        try:
            expr = ref_map(lambda leaf: T.ident(7) if isinstance(leaf, X) else leaf, v)
        except TypeError:
            continue  # expression not usable in this position (e.g. unhashable)
        want = ref_map(lambda leaf: 7 if isinstance(leaf, X) else leaf, v)
        env = evloop.Env([])
        try:
            out = env.run(expr)
        finally:
            env.close()
        n += 1
        if out[0] != "ok" or typed_key(out[1]) != typed_key(want):
            viol.append((f"evaluate-nested:{type(v).__name__}", {"value": repr(v)}, f"Scheduler.run({v!r} with X=ident(7)) -> {out!r}, expected {want!r}"))
    return {"viol": viol, "n": n}


def run(ctx):
    from engine import seams
    from engine.common import check_harness_errors

    d1 = gen(1, LEAVES)
    kids2 = LEAVES + [v for _, v in d1 if len(ref_leaves(v)) <= 1 or type(v).__name__ in ("FDCN", "DCN", "Pt", "PtSub")]
    if not ctx.quick:
        kids2 = LEAVES + [v for _, v in d1]
    d2 = gen(2, kids2)
    vals = [v for _, v in d1] + [v for _, v in d2]
    vals = ctx.rotate(vals)
    shapes = set()
    n = 0
    for v in vals:
        n += 1
        r = check_value(v)
        shapes.add(shape(v))
        if r:
            ctx.violation(r[0], {"value": repr(v)}, r[1])
    seams.template_db()
    sv = [v for _, v in d1] + [v for k, v in d2 if len(ref_leaves(v)) <= 2][: ctx.pick(250, 1500)]
    chunks = [sv[i:i + 20] for i in range(0, len(sv), 20)]
    res = ctx.pmap(sched_leg, chunks, chunksize=1)
    check_harness_errors(res)
    ctx.add_results(res)
    return {"coverage": {
        "evaluations": n + sum(r["n"] for r in res),
        "distinct_nontrivial": len(shapes),
        "scheduler_evaluations": sum(r["n"] for r in res),
        "exhaustive": True,
        "rule": "all nestings of depth <=2 over list, tuple, namedtuple, a subclass of a namedtuple, set, dict (values and keys), dataclass, frozen dataclass, dataclasses "
        "with a non-init field (plain and frozen), leaves {1,'a',X, an instance of a plain tuple subclass}; oracle: map_nested_value with an injective function equals a reference "
        "rebuild (type-exact), the leaves it visits equal the leaves iter_nested_value yields equal the reference leaves; and "
        "Scheduler.run replaces X=ident(7) everywhere; distinct = distinct two-level type shapes",
        "samples": [repr(vals[i]) for i in (0, len(vals) // 2, len(vals) - 1)],
    }, "assumptions": ["subclasses of list/dict and frozensets are leaves for both functions (not part of the statement)"]}
