"""C18 — expression hashes identify the call an expression denotes; pickling preserves identity and clears bookkeeping."""
from __future__ import annotations

import itertools
from collections import defaultdict

LEVEL = "exploration"


def build_all(tier):
    """Returns [(identity, expression)] over all four expression kinds."""
    import wf.tasks as T
    from redun.expression import SchedulerExpression, SimpleExpression, TaskExpression, ValueExpression

    out = []
    leaf_args = [0, 1, "0", [0], (0,), {"k": 0}]
    opts = [{}, {"a": 1}, {"a": 2}, {"b": 1}, {"a": 1, "b": 1}]
    exports = [set(), {"a"}, {"a", "b"}]
    nested = [T.inc(0), T.inc(1), T.inc.options(a=1)(0)]
    nested_ids = [("T", "vf.inc", ((0,), ()), (), ()), ("T", "vf.inc", ((1,), ()), (), ()), ("T", "vf.inc", ((0,), ()), (("a", 1),), ())]

    def ident_of_arg(a):
        for e, i in zip(nested, nested_ids):
            if a is e:
                return i
        return ("v", repr(a), type(a).__name__)

    arg_pool = leaf_args + nested
    arg_tuples = [()] + [(a,) for a in arg_pool] + [(a, b) for a in arg_pool[:3] + nested[:1] for b in arg_pool[:2] + nested[:2]]
    kw_sets = [{}, {"k": 0}, {"k": 1}, {"j": 0}, {"k": True}, {"k": 0.0}]
    if tier == "quick":
        arg_tuples = arg_tuples[:22]
    # arguments that compare equal but are different values: f(1), f(True) and f(1.0) are three different calls
    twins = [(True,), (1.0,), (False,), (0.0,), (1, True), (True, 1)]
    arg_tuples = arg_tuples + twins
    for name in ("vf.inc", "vf.add"):
        for args in arg_tuples:
            for kw in kw_sets:
                for o in opts:
                    for ex in exports:
                        ident = ("T", name, (tuple(ident_of_arg(a) for a in args), tuple(sorted((k, repr(v), type(v).__name__) for k, v in kw.items()))), tuple(sorted(o.items())), tuple(sorted(ex)))
                        out.append((ident, TaskExpression(name, args, dict(kw), task_options=dict(o), export_options=set(ex))))
    for name in ("redun.cond", "redun.seq"):
        for args in arg_tuples[:14] + twins:
            for kw in kw_sets[:2]:
                for o in opts[:3]:
                    for ex in exports[:2]:
                        ident = ("S", name, (tuple(ident_of_arg(a) for a in args), tuple(sorted((k, repr(v), type(v).__name__) for k, v in kw.items()))), tuple(sorted(o.items())), tuple(sorted(ex)))
                        out.append((ident, SchedulerExpression(name, args, dict(kw), task_options=dict(o), export_options=set(ex))))
    for fn in ("getitem", "add", "radd", "mul", "rmul", "sub", "rsub", "getattr", "call"):
        for args in arg_tuples[:20] + twins:
            for kw in kw_sets[:2]:
                ident = ("O", fn, (tuple(ident_of_arg(a) for a in args), tuple(sorted((k, repr(v), type(v).__name__) for k, v in kw.items()))), (), ())
                out.append((ident, SimpleExpression(fn, args, dict(kw))))
    for v in leaf_args + [1.0, True, None, "1"]:
        out.append((("V", repr(v), type(v).__name__), ValueExpression(v)))
    return out


def run(ctx):
    import pickle

    from redun.expression import ApplyExpression, TaskExpression, ValueExpression

    items = ctx.rotate(build_all(ctx.tier))
    by_hash = defaultdict(set)
    by_ident = defaultdict(set)
    ex = {}
    for ident, e in items:
        h = e.get_hash()
        by_hash[h].add(ident)
        by_ident[ident].add(h)
        ex.setdefault((h, ident), e)
    for h, ids in by_hash.items():
        if len(ids) > 1:
            a, b = sorted(ids, key=repr)[:2]
            diff = "options" if a[:3] == b[:3] and a[3] != b[3] else ("export-options" if a[:4] == b[:4] else ("args" if a[:2] == b[:2] else "name/kind"))
            ctx.violation(f"merged-distinct-calls:{a[0]}:{diff}", {"a": repr(a), "b": repr(b)},
                          f"distinct expressions hash equal: {ex[(h, a)]!r} {a} vs {ex[(h, b)]!r} {b}")
    for ident, hs in by_ident.items():
        if len(hs) > 1:
            ctx.violation(f"same-call-different-hash:{ident[0]}", {"ident": repr(ident)}, f"{ident} has hashes {sorted(hs)}")
    # pickle round trip
    n_rt = 0
    for ident, e in items:
        e.get_hash()
        if isinstance(e, TaskExpression):
            e.call_hash = "deadbeef"
        if isinstance(e, ApplyExpression):
            e._upstreams = ["junk"]
        e2 = pickle.loads(pickle.dumps(e))
        n_rt += 1
        kind = ident[0]
        if e2.get_hash() != e.get_hash():
            ctx.violation(f"pickle-changes-hash:{kind}", {"ident": repr(ident)}, f"{e!r}: {e.get_hash()} -> {e2.get_hash()}")
        if isinstance(e, ApplyExpression):
            if repr((e2.args, sorted(e2.kwargs.items()))) != repr((e.args, sorted(e.kwargs.items()))):
                ctx.violation(f"pickle-changes-args:{kind}", {"ident": repr(ident)}, f"{e!r} -> {e2!r}")
            if e2._upstreams != [e2.args, e2.kwargs]:
                ctx.violation(f"pickle-keeps-upstreams:{kind}", {"ident": repr(ident)}, f"_upstreams={e2._upstreams!r}")
        if isinstance(e, TaskExpression):
            if e2._options != e._options or e2._export_options != e._export_options or e2.task_name != e.task_name:
                ctx.violation(f"pickle-changes-options:{kind}", {"ident": repr(ident)}, f"{e._options},{e._export_options} -> {e2._options},{e2._export_options}")
            if e2.call_hash is not None:
                ctx.violation(f"pickle-keeps-call-hash:{kind}", {"ident": repr(ident)}, f"call_hash={e2.call_hash}")
        if isinstance(e, ValueExpression) and (type(e2.value) is not type(e.value) or e2.value != e.value):
            ctx.violation("pickle-changes-value:V", {"ident": repr(ident)}, f"{e.value!r} -> {e2.value!r}")
    return {"coverage": {
        "evaluations": len(items) + n_rt,
        "distinct_nontrivial": len(by_ident),
        "distinct_hashes": len(by_hash),
        "exhaustive": True,
        "rule": "all Task/Scheduler/Simple/Value expressions over 2 task / scheduler-task names and 9 operator names (direct and reflected forms), argument tuples of length <=2 over concrete values (incl. the equal-but-different 0/False/0.0 and 1/True/1.0) and nested "
        "expressions (incl. one differing only in its options), keyword sets, 5 call-time option sets, 3 exported-option sets; oracle over all "
        "pairs: hash equal <=> (kind, name, args, options, exported) equal; pickle round trip keeps hash/args/options and resets call_hash/_upstreams",
        "samples": [repr(items[i][1]) for i in (0, len(items) // 2, len(items) - 1)],
    }, "assumptions": []}
