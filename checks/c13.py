"""C13 — promises settle once, notify every callback exactly once in registration order, chain, all/wait.

Explicit-state BFS over operation histories on the real redun.promise.Promise against a reference model.
A state is the history that reaches it; the dedup key is the reference model's full state (promise states,
values, pending callback descriptors) — two histories with the same model state have the same futures in the
model, and the implementation is checked to agree with the model on every transition leading there.
"""
from __future__ import annotations

import collections
import itertools

LEVEL = "model_checking"

BASE = 2  # base promises p0, p1; derived promises get increasing ids


class PV:
    """Model-side stand-in for 'promise number i used as a plain VALUE' (a promise settled with a promise does not adopt it)."""

    def __init__(self, i):
        self.i = i

    def __repr__(self):
        return f"<P{self.i}>"


class E(Exception):
    def __init__(self, tag):
        super().__init__(tag)
        self.tag = tag

    def __repr__(self):
        return f"E({self.tag})"


# ---------------------------------------------------------------------------------------------- model
class MP:
    def __init__(self, pid):
        self.pid = pid
        self.state = "pending"
        self.value = None
        self.queue = []  # pending callback records
        self.draining = False


class Model:
    def __init__(self):
        self.ps = [MP(i) for i in range(BASE)]
        self.log = []
        self.ncb = 0

    def new(self):
        p = MP(len(self.ps))
        self.ps.append(p)
        return p

    def settle(self, p, kind, v):
        if p.state != "pending":
            return
        p.state, p.value = kind, v
        self.drain(p)

    def drain(self, p):
        if p.draining or p.state == "pending":
            return
        p.draining = True
        while p.queue:
            cb = p.queue.pop(0)
            cb(p.state, p.value)
        p.draining = False

    def register(self, p, cb):
        p.queue.append(cb)
        self.drain(p)

    def then(self, p, ok_act, err_act, label):
        d = self.new()

        def cb(kind, v):
            act = ok_act if kind == "ok" else err_act
            if act is None:
                self.settle(d, kind, v)
                return
            self.log.append((label, kind, repr(v)))
            self.do_act(act, d, label)

        cb.desc = (label, ok_act, err_act, d.pid)
        self.register(p, cb)
        return d

    def do_act(self, act, d, label):
        k = act[0]
        if k == "ret":
            self.settle(d, "ok", f"r{label}")
        elif k == "raise":
            self.settle(d, "err", E(f"x{label}"))
        elif k == "retp":
            q = self.ps[act[1]]

            def fwd(kind, v):
                self.settle(d, kind, v)

            fwd.desc = ("fwd", d.pid)
            self.register(q, fwd)
        elif k == "res":
            self.settle(self.ps[act[1]], "ok", f"s{label}")
            self.settle(d, "ok", f"r{label}")
        elif k == "rej":
            self.settle(self.ps[act[1]], "err", E(f"j{label}"))
            self.settle(d, "ok", f"r{label}")
        elif k == "reg":
            self.observe(self.ps[act[1]], f"{label}+")
            self.settle(d, "ok", f"r{label}")

    def observe(self, p, label):
        def cb(kind, v):
            self.log.append((label, kind, repr(v)))

        cb.desc = ("obs", label)
        self.register(p, cb)

    def all(self, idxs, label):
        d = self.new()
        res = [None] * len(idxs)
        st = {"n": 0}
        for i, pi in enumerate(idxs):
            def cb(kind, v, i=i):
                if kind == "ok":
                    res[i] = v
                    st["n"] += 1
                    if st["n"] == len(idxs):
                        self.settle(d, "ok", list(res))
                else:
                    self.settle(d, "err", v)

            cb.desc = ("all", d.pid, i)
            self.register(self.ps[pi], cb)
        if not idxs:
            self.settle(d, "ok", [])
        self.observe(d, label)
        return d

    def wait(self, idxs, label):
        d = self.new()
        st = {"n": 0}
        for i, pi in enumerate(idxs):
            def cb(kind, v):
                st["n"] += 1
                if st["n"] == len(idxs):
                    self.settle(d, "ok", [(self.ps[j].state, repr(self.ps[j].value)) for j in idxs])

            cb.desc = ("wait", d.pid, i)
            self.register(self.ps[pi], cb)
        if not idxs:
            self.settle(d, "ok", [])
        self.observe(d, label)
        return d

    def key(self):
        return tuple((p.state, repr(p.value), tuple(repr(c.desc) for c in p.queue)) for p in self.ps)

    def states(self):
        return [(p.state, repr(p.value)) for p in self.ps]


# ---------------------------------------------------------------------------------------------- impl driver
class Impl:
    def __init__(self):
        from redun.promise import Promise, wait_promises

        self.Promise, self.wait_promises = Promise, wait_promises
        self.ps = [Promise() for _ in range(BASE)]
        self.log = []

    def val(self, v):
        from redun.promise import Promise

        if isinstance(v, Promise):
            return f"<P{self.ps.index(v)}>"
        if isinstance(v, list):
            return "[" + ", ".join(self.val(x) for x in v) + "]"
        if isinstance(v, tuple):
            return "(" + ", ".join(self.val(x) for x in v) + ("," if len(v) == 1 else "") + ")"
        return repr(v)

    def then(self, p, ok_act, err_act, label):
        holder = {}

        def mk(act, kind):
            if act is None:
                return None

            def cb(v):
                self.log.append((label, kind, self.val(v)))
                return self.do_act(act, label)

            return cb

        d = self.ps[p].then(mk(ok_act, "ok"), mk(err_act, "err"))
        holder["d"] = d
        self.ps.append(d)
        return d

    def do_act(self, act, label):
        k = act[0]
        if k == "ret":
            return f"r{label}"
        if k == "raise":
            raise E(f"x{label}")
        if k == "retp":
            return self.ps[act[1]]
        if k == "res":
            self.ps[act[1]].do_resolve(f"s{label}")
            return f"r{label}"
        if k == "rej":
            self.ps[act[1]].do_reject(E(f"j{label}"))
            return f"r{label}"
        if k == "reg":
            self.observe(self.ps[act[1]], f"{label}+")
            return f"r{label}"
        raise AssertionError(act)

    def observe(self, p, label):
        p.then(lambda v: self.log.append((label, "ok", self.val(v))) and None,
               lambda e: self.log.append((label, "err", self.val(e))) and None)

    def all(self, idxs, label):
        d = self.Promise.all([self.ps[i] for i in idxs])
        self.ps.append(d)
        self.observe(d, label)

    def wait(self, idxs, label):
        d = self.wait_promises([self.ps[i] for i in idxs])
        d2 = d.then(lambda ps: [("ok" if p.is_fulfilled else "err", self.val(p.value if p.is_fulfilled else p.error)) for p in ps])
        self.ps.append(d2)
        self.observe(d2, label)

    def states(self):
        out = []
        for p in self.ps:
            if p.is_pending:
                out.append(("pending", "None"))
            elif p.is_fulfilled:
                out.append(("ok", self.val(p.value)))
            else:
                out.append(("err", self.val(p.error)))
        return out


def apply(obj, op, label):
    k = op[0]
    if k == "resolve":
        if isinstance(obj, Model):
            obj.settle(obj.ps[op[1]], "ok", "v")
        else:
            obj.ps[op[1]].do_resolve("v")
    elif k == "resolvep":
        # settle promise op[1] DIRECTLY with promise op[2] as its value: that is a settlement like any other (first one wins, callbacks run)
        if isinstance(obj, Model):
            obj.settle(obj.ps[op[1]], "ok", PV(op[2]))
        else:
            obj.ps[op[1]].do_resolve(obj.ps[op[2]])
    elif k == "reject":
        if isinstance(obj, Model):
            obj.settle(obj.ps[op[1]], "err", E("e"))
        else:
            obj.ps[op[1]].do_reject(E("e"))
    elif k == "then":
        tgt = op[1] if op[1] >= 0 else len(obj.ps) - 1  # -1 = latest promise (chaining)
        obj.then(obj.ps[tgt] if isinstance(obj, Model) else tgt, op[2], op[3], label)
    elif k == "all":
        obj.all(list(op[1]), label)
    elif k == "wait":
        obj.wait(list(op[1]), label)


def op_label(op):
    """Position-independent label so that histories reaching the same model state merge."""
    if op[0] == "then":
        f = lambda a: "-" if a is None else a[0] + "".join(map(str, a[1:]))
        return f"t{op[1]}{f(op[2])}/{f(op[3])}"
    if op[0] == "resolvep":
        return f"rsp{op[1]}{op[2]}"
    return op[0][0] + "".join(map(str, op[1])) if op[0] in ("all", "wait") else op[0][:3] + str(op[1])


def alphabet(tier):
    ops = []
    for p in range(BASE):
        ops.append(("resolve", p))
        ops.append(("reject", p))
    ops.append(("resolvep", 0, 1))
    for a in [("ret",), ("raise",), ("retp", 1), ("res", 1), ("rej", 1), ("reg", 0)]:
        ops.append(("then", 0, a, None))
    for a in [("ret",), ("raise",), ("reg", 0)]:
        ops.append(("then", 0, None, a))
    ops.append(("then", 0, ("ret",), ("ret",)))
    for a in [("ret",), ("res", 0), ("rej", 0), ("reg", 1)]:
        ops.append(("then", 1, a, None))
    ops.append(("then", 1, None, ("ret",)))
    for a in [("ret",), ("raise",), ("retp", 1)]:
        ops.append(("then", -1, a, None))
    ops.append(("then", -1, None, ("ret",)))
    for idxs in [(), (0, 1), (1, 0), (0, 0), (0, -1)]:
        ops.append(("all", idxs))
    for idxs in [(), (0, 1), (1, -1)]:
        ops.append(("wait", idxs))
    return ops


def norm_idx(op, n):
    if op[0] in ("all", "wait"):
        return (op[0], tuple(i if i >= 0 else n - 1 for i in op[1]))
    return op


def build(hist):
    m, im = Model(), Impl()
    for op in hist:
        lab = op_label(op)
        apply(m, norm_idx(op, len(m.ps)), lab)
        apply(im, norm_idx(op, len(im.ps)), lab)
    return m, im


def sig_for(hist, m, im):
    kinds = "+".join(sorted({op[0] + (":" + (op[2] or op[3])[0] if op[0] == "then" else "") for op in hist}))
    if sorted(m.log) == sorted(im.log) and m.log != im.log:
        return "callback-order:" + kinds
    if m.states() != im.states():
        return "final-states:" + kinds
    return "callback-log:" + kinds


def bfs_from(arg):
    """Worker: BFS over all histories that start with `first`, up to length L."""
    import hashlib

    first, L, ops = arg
    viol = []
    seen = set()
    digests = set()
    frontier = collections.deque()
    transitions = fired = max_depth = 0
    samples = []

    def visit(h2):
        nonlocal transitions, fired, max_depth
        m, im = build(h2)
        transitions += 1
        if m.log:
            fired += 1
        if m.log != im.log or m.states() != im.states():
            if len(viol) < 200:
                viol.append((sig_for(h2, m, im), {"history": [list(map(_j, o)) for o in h2]},
                             f"history={h2}\nmodel log={m.log}\nimpl  log={im.log}\nmodel states={m.states()}\nimpl  states={im.states()}"))
            return  # do not extend a history on which model and implementation already disagree
        k = m.key()
        if k not in seen:
            seen.add(k)
            digests.add(hashlib.sha1(repr(k).encode()).digest()[:8])
            frontier.append(h2)
            max_depth = max(max_depth, len(h2))
            if len(samples) < 1 and len(h2) == 3 and len(m.log) >= 2:
                samples.append({"history": repr(h2), "log": repr(m.log)})

    visit((first,))
    while frontier:
        hist = frontier.popleft()
        if len(hist) >= L:
            continue
        for op in ops:
            visit(hist + (op,))
    return {"viol": viol, "digests": digests, "transitions": transitions, "fired": fired, "max_depth": max_depth, "samples": samples}


def run(ctx):
    from engine.common import check_harness_errors

    L = ctx.pick(4, 5)
    ops = ctx.rotate(alphabet(ctx.tier))
    results = ctx.pmap(bfs_from, [(op, L, ops) for op in ops], chunksize=1)
    check_harness_errors(results)
    ctx.add_results(results)
    states = set().union(*[r["digests"] for r in results])
    transitions = sum(r["transitions"] for r in results)
    samples = [s for r in results for s in r["samples"]][:3]
    return {
        "coverage": {
            "states": len(states) + 1,
            "transitions": transitions,
            "traces_validated_against_impl": transitions,
            "max_depth": max(r["max_depth"] for r in results),
            "alphabet_size": len(ops),
            "transitions_with_callbacks_fired": sum(r["fired"] for r in results),
            "exhaustive": True,
            "rule": f"BFS over all histories of <= {L} operations from an alphabet of {len(ops)} (resolve/reject of 2 base promises; then() on "
            "p0/p1/latest with callbacks that return, raise, return a promise, re-entrantly resolve/reject another promise, or register "
            "a further callback on the promise being notified; Promise.all / wait_promises over empty, repeated and mixed lists); "
            "histories are merged (per first operation) when the reference model's full state is equal; after every operation the "
            "callback invocation log and all promise states are compared",
            "samples": samples or [{"history": "()", "log": "[]"}],
        },
        "assumptions": ["delivery is synchronous (as in the implementation); the model delivers callbacks per promise in FIFO registration order"],
    }


def _j(x):
    return list(x) if isinstance(x, tuple) else x


def _t(x):
    return tuple(_t(i) for i in x) if isinstance(x, list) else x


def replay(ctx, case):
    hist = tuple(_t(o) for o in case["history"])
    m, im = build(hist)
    if m.log != im.log or m.states() != im.states():
        return [(sig_for(hist, m, im), f"model log={m.log} impl log={im.log}")]
    return []
