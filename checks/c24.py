"""C24 — tag add/update/rm histories behave like a key-value multimap per entity; the tag edit graph stays acyclic.

Explicit-state BFS over histories of the real `redun tag add|update|rm` command handlers on a real SQLite backend,
against a reference model.  A state is a database file; it is reached by copying the parent state's file and applying one
command.  States are merged when the complete tag / tag_edit tables are equal (tags are content addressed, so equal
tables have the same futures).
"""
from __future__ import annotations

import collections
import io
import os
import shutil
import sqlite3
from argparse import Namespace

LEVEL = "model_checking"


def alphabet(tier):
    E1, E2 = "E1", "E2"
    ops = []
    for v in ("1", "2", '"1"'):
        ops.append(("add", E1, (f"k={v}",)))
        ops.append(("update", E1, (f"k={v}",)))
        ops.append(("rm", E1, (f"k={v}",)))
    ops += [("add", E1, ("j=1",)), ("update", E1, ("j=2",)), ("rm", E1, ("k",)), ("rm", E1, ("j",)),
            ("add", E1, ("k=1", "k=2")), ("update", E1, ("k=1", "j=1")), ("rm", E1, ("k=1", "j")),
            ("add", E2, ("k=1",)), ("update", E2, ("k=2",)), ("rm", E2, ("k",)),
            # one command carrying two values that are equal in Python but different JSON values; a repeated key that is not adjacent
            ("add", E1, ("k=1", "k=true")), ("update", E1, ("k=1", "j=2", "k=2"))]
    if tier != "quick":
        ops += [("add", E1, ("k=[1]",)), ("update", E1, ("k=[1]",)), ("rm", E1, ("k=[1]",)), ("add", E2, ("j=1",))]
    return ops


def model_apply(cur, op, ids):
    from redun.tags import ANY_VALUE, parse_tag_key_value

    kind, ent, kvs = op
    e = ids[ent]
    s = cur.setdefault(e, set())
    pairs = [parse_tag_key_value(a, value_required=(kind != "rm")) for a in kvs]
    norm = lambda v: repr(v)  # noqa: E731  JSON values: 1 and "1" differ, lists by content
    if kind == "add":
        s |= {(k, norm(v)) for k, v in pairs}
    elif kind == "update":
        keys = {k for k, _ in pairs}
        cur[e] = {(k, v) for k, v in s if k not in keys} | {(k, norm(v)) for k, v in pairs}
    elif kind == "rm":
        anykeys = {k for k, v in pairs if v is ANY_VALUE}
        exact = {(k, norm(v)) for k, v in pairs if v is not ANY_VALUE}
        cur[e] = {(k, v) for k, v in s if k not in anykeys and (k, v) not in exact}


class WorkerDB:
    """One backend/engine per worker process on a fixed path (keeps SQLAlchemy's compiled-statement cache warm);
    a state is loaded by copying its file over that path while no connection is open."""

    def __init__(self):
        from redun import Scheduler
        from redun.cli import RedunClient

        from engine import common, seams

        self.path = os.path.join(common.scratch_dir(), f"c24-work-{os.getpid()}.db")
        shutil.copyfile(seams.template_db(), self.path)
        self.backend = seams.open_backend(self.path)
        self.client = RedunClient()
        self.client.scheduler = Scheduler(backend=self.backend)
        self.client.repo = "default"
        self.client.stdout = io.StringIO()

    def load(self, src):
        self.backend.session.close()
        self.backend.engine.dispose()
        shutil.copyfile(src, self.path)

    def save(self, dst):
        self.backend.session.close()
        self.backend.engine.dispose()
        shutil.copyfile(self.path, dst)


_worker = None


def worker_db():
    global _worker
    if _worker is None or _worker_pid[0] != os.getpid():
        _worker = WorkerDB()
        _worker_pid[0] = os.getpid()
    return _worker


_worker_pid = [None]


def apply_op(parent_db, dst_db, op, ids):
    w = worker_db()
    w.load(parent_db)
    args = Namespace(repo="default", config=None, setup=None)
    kind, ent, kvs = op
    extra = [ids[ent]] + list(kvs)
    if kind == "rm":
        extra = [ids[ent], "--"] + list(kvs)
    w.client.stdout = io.StringIO()
    getattr(w.client, f"tag_{kind}_command")(args, extra, [])
    tags = w.backend.get_tags(list(ids.values()))
    cur = {e: sorted((k, repr(v)) for k, v in tags.get(e, [])) for e in ids.values()}
    w.save(dst_db)
    return cur


def table_key(db):
    con = sqlite3.connect(db)
    try:
        t = con.execute("select tag_hash, entity_id, key, value, is_current from tag order by tag_hash").fetchall()
        e = con.execute("select parent_id, child_id from tag_edit order by parent_id, child_id").fetchall()
    finally:
        con.close()
    return (tuple(t), tuple(e)), e


def acyclic(edges):
    children = collections.defaultdict(list)
    for p, c in edges:
        children[p].append(c)
    state = {}

    def visit(n):
        if state.get(n) == 1:
            return False
        if state.get(n) == 2:
            return True
        state[n] = 1
        for c in children.get(n, ()):  # noqa: B007
            if not visit(c):
                return False
        state[n] = 2
        return True

    return all(visit(n) for n in list(children))


def base_db():
    """A backend with two taggable Value entities."""
    from engine import seams

    db = seams.fresh_db_path("tagbase")
    b = seams.open_backend(db)
    ids = {"E1": b.record_value("entity-one"), "E2": b.record_value("entity-two")}
    seams.close_backend(b)
    return db, ids


def do_transition(arg):
    """Worker: apply one command to a copy of the parent state. Returns what the parent process needs to judge and dedup."""
    parent_db, dst_db, op, ids = arg
    try:
        cur = apply_op(parent_db, dst_db, op, ids)
    except Exception as e:  # noqa: BLE001
        try:
            worker_db().backend.session.rollback()
        except Exception:  # noqa: BLE001
            pass
        return {"error": repr(e), "etype": type(e).__name__}
    key, edges = table_key(dst_db)
    return {"cur": cur, "key": key, "acyclic": acyclic(edges)}


def list_(x):
    return list(x) if isinstance(x, tuple) else x


def run(ctx):
    from engine import common, seams
    from engine.common import check_harness_errors

    import redun.cli  # noqa: F401  (heavy import: do it once before the worker pool forks)

    seams.template_db()
    L = ctx.pick(3, 4)
    ops = ctx.rotate(alphabet(ctx.tier))
    base, ids = base_db()
    work = os.path.join(common.scratch_dir(), "c24-states")
    os.makedirs(work, exist_ok=True)
    seen = {table_key(base)[0]}
    level = [(base, (), {})]
    transitions = dup_current = 0
    counter = 0
    best = {}
    samples = []

    def report(sig, hist, detail):
        if sig not in best or len(hist) < len(best[sig][0]["history"]):
            best[sig] = ({"history": [list(map(list_, o)) for o in hist]}, detail)

    for depth in range(1, L + 1):
        jobs, meta = [], []
        for db, hist, model in level:
            for op in ops:
                counter += 1
                dst = os.path.join(work, f"s{counter}.db")
                jobs.append((db, dst, op, ids))
                meta.append((hist + (op,), model, dst))
        res = ctx.pmap(do_transition, jobs, chunksize=8)
        check_harness_errors(res)
        nxt = []
        for (h2, model, dst), r in zip(meta, res):
            kinds = "+".join(sorted({o[0] for o in h2}))
            if "error" in r:
                report(f"command-raises:{r['etype']}:{kinds}", h2, f"history {h2}: {r['error']}")
                continue
            transitions += 1
            m2 = {k: set(v) for k, v in model.items()}
            model_apply(m2, h2[-1], ids)
            ok = True
            for e in ids.values():
                got = set(map(tuple, r["cur"].get(e, [])))
                if len(r["cur"].get(e, [])) != len(got):
                    dup_current += 1
                if got != m2.get(e, set()):
                    ok = False
                    report(f"current-tags-differ:last={h2[-1][0]}:{kinds}", h2,
                           f"history {h2}: entity {e[:8]} has current tags {sorted(got)}, model says {sorted(m2.get(e, set()))}")
            if not r["acyclic"]:
                ok = False
                report(f"tag-edit-cycle:{kinds}", h2, f"history {h2}: tag_edit graph has a cycle")
            if ok and r["key"] not in seen:
                seen.add(r["key"])
                nxt.append((dst, h2, m2))
                if len(samples) < 3 and len(h2) == 3:
                    samples.append({"history": repr(h2), "current": repr(r["cur"])})
            else:
                try:
                    os.remove(dst)
                except FileNotFoundError:
                    pass
        for db, _, _ in level:
            if db != base:
                try:
                    os.remove(db)
                except FileNotFoundError:
                    pass
        level = nxt
    shutil.rmtree(work, ignore_errors=True)
    for sig, (case, detail) in best.items():
        ctx.violation(sig, case, detail)
    return {"coverage": {
        "states": len(seen),
        "transitions": transitions,
        "traces_validated_against_impl": transitions,
        "max_depth": L, "alphabet_size": len(ops),
        "transitions_with_a_pair_current_twice": dup_current,
        "exhaustive": True,
        "rule": f"level-synchronous BFS over all histories of <= {L} tag commands (add/update/rm through the real RedunClient command handlers "
        "and their argument parsing) on two entities, keys {k,j}, values {1,2,\"1\"[,[1]]}, incl. multi-pair commands (also two Python-equal but JSON-different values of one key, and a repeated key that is not adjacent), key-only and exact-pair "
        "removal; states = database files, merged when the tag and tag_edit tables are equal; after every command the SET of current "
        "(key, value) pairs of each entity equals the reference multimap and the edit graph is acyclic",
        "samples": samples or ["-"],
    }, "assumptions": ["multiplicity of a current pair is not compared (the implementation is neither a set nor a bag consistently; counted in "
                       "transitions_with_a_pair_current_twice)"]}
