"""C32 — the scratch-file protocol of remote executors reproduces local execution.

Three legs, all bounded-exhaustive, all on the real code (get_oneshot_command, write_array_job_scratch_files, the real
`redun oneshot` entry point run in-process, parse_job_result / parse_job_error, get_batch_job_name /
get_hash_from_job_name, AWSBatchExecutor._submit / gather_inflight_jobs / _submit_*_job / _process_job_status):

* protocol  - every call-set x {single, array of size 1..3 x every index} x cache flag, plus every attempt history of a flaky
              task (explicit-state: scratch directory = state) against a 6-line reference model of the scratch files;
* names     - prefixes x hashes x array flag round trip;
* reunite   - two scheduler sessions around an in-process fake of the AWS Batch API: every ordered subset of 3 evaluations
              submitted as singles / array in session 1, every subset of the remote jobs still in flight, every subset
              resubmitted in session 2; reunited pairs must have been created for the same evaluation hash and every job
              must end with the local result.
"""
from __future__ import annotations

import itertools
import os
import shutil
from collections import Counter

LEVEL = "exploration"

ENV_VARS = ["AWS_BATCH_JOB_ARRAY_INDEX", "JOB_COMPLETION_INDEX", "BATCH_TASK_INDEX"]


# ------------------------------------------------------------------------------------------------ helpers
def exc_key(e):
    return (type(e).__module__ + "." + type(e).__qualname__, repr(e.args))


def local_outcome(task, args, kwargs):
    """What calling the task locally gives: ('ok', repr(value)) or ('err', exception key as the protocol promises it)."""
    import pickle

    try:
        v = task.func(*args, **kwargs)
        return ("ok", repr(v))
    except Exception as e:  # noqa: BLE001
        try:
            pickle.dumps(e)
        except Exception:  # noqa: BLE001
            return ("err", ("builtins.Exception", repr((repr(e),))))  # documented fallback: generic Exception(repr(error))
        return ("err", exc_key(e))


def make_job(task, args, kwargs, options=None):
    from redun.scheduler import Job
    from redun.task import hash_args_eval
    from redun.value import get_type_registry

    t = task.options(**options) if options else task
    job = Job(t, t(*args, **kwargs))
    job.args = (args, kwargs)
    job.eval_hash, job.args_hash = hash_args_eval(get_type_registry(), t, args, kwargs)
    return job


def run_oneshot(cmd, index=None, var=None):
    """Run the real `redun oneshot` entry point in-process with the array index in the environment."""
    from redun.cli import RedunClient

    import sys

    import redun.utils as ru

    saved = {k: os.environ.pop(k, None) for k in ENV_VARS}
    saved_paths = (list(ru._redun_import_paths), list(sys.path))  # a container starts from a fresh interpreter: undo add_import_path
    if index is not None:
        os.environ[var or ENV_VARS[0]] = str(index)
    try:
        try:
            return ("ok", RedunClient().execute(cmd))
        except Exception as e:  # noqa: BLE001
            return ("err", e)
    finally:
        ru._redun_import_paths[:], sys.path[:] = saved_paths
        for k in ENV_VARS:
            os.environ.pop(k, None)
            if saved[k] is not None:
                os.environ[k] = saved[k]


def observed(scratch, job, status):
    """What the executor's monitor would report for a job whose container ended with `status` ('ok' = exit 0)."""
    from redun.executors.scratch import parse_job_error, parse_job_result

    if status == "ok":
        res, exists = parse_job_result(scratch, job)
        return ("ok", repr(res)) if exists else ("no-output",)
    err, _tb = parse_job_error(scratch, job)
    return ("err", exc_key(err))


def docker_status(scratch, job):
    """The Docker executor's real completion rule (iter_job_status) for a container that has exited, docker CLI calls stubbed out."""
    import redun.executors.docker as dk

    saved = dk.subprocess
    dk.subprocess = type("S", (), {"check_output": staticmethod(lambda *a, **k: b"")})
    try:
        return next(iter(dk.iter_job_status(scratch, {"container1": job})))["status"]
    finally:
        dk.subprocess = saved


def files_of(scratch, job):
    from redun.executors.scratch import SCRATCH_ERROR, SCRATCH_OUTPUT, get_job_scratch_file

    return (os.path.exists(get_job_scratch_file(scratch, job, SCRATCH_OUTPUT)), os.path.exists(get_job_scratch_file(scratch, job, SCRATCH_ERROR)))


# ------------------------------------------------------------------------------------------------ leg: protocol
VALS = [0, "", None, [1, [2]], {"k": (1, 2)}, b"\x00\xff", True, 1.5]


def callsets(quick):
    import wf.remote as wr

    vals = VALS[: 6 if quick else 8]
    out = []
    for n in range(0, 3):
        for a in itertools.product(vals, repeat=n):
            for kw in ({}, {"z": {"a": [1]}}):
                out.append(("echo", wr.echo, tuple(a), dict(kw)))
    for a, kw in [((1,), {}), ((1, 5), {}), ((1,), {"c": 7}), ((1, 5), {"c": 7}), ((), {"a": 1}), ((), {"a": 1, "b": None}), (([],), {"b": {}}), ((1,), {"c": (1,)})]:
        out.append(("kw", wr.kw, a, kw))
    for kind in ("value", "key", "two-args", "unpicklable", "none", "plain"):
        for msg in ("m", ""):
            out.append(("boom", wr.boom, (kind, msg), {}))
    return out


def protocol_single(chunk):
    from redun.executors.command import get_oneshot_command

    from engine import common

    common.quiet_redun()
    scratch = os.path.join(common.scratch_dir(), f"c32-s-{os.getpid()}")
    viol, n, outs = [], 0, Counter()
    for name, task, args, kwargs, no_cache in chunk:
        shutil.rmtree(scratch, ignore_errors=True)
        want = local_outcome(task, args, kwargs)
        job = make_job(task, args, kwargs, {"cache": False} if no_cache else None)
        case = {"leg": "single", "task": name, "args": repr(args), "kwargs": repr(kwargs), "no_cache": no_cache}
        cmd = get_oneshot_command(scratch, job, job.task, args, kwargs, job_options=job.get_options())
        if no_cache != ("--no-cache" in cmd):
            viol.append((f"single:no-cache-flag:{name}", case, f"{case}: command {cmd}"))
        st, _ = run_oneshot(cmd)
        got = observed(scratch, job, st)
        n += 1
        outs[got[0]] += 1
        if got != want:
            viol.append((f"single:differs-from-local:{name}:{want[0]}", case, f"{case}: protocol gives {got!r}, local call gives {want!r}"))
        o, e = files_of(scratch, job)
        if (st == "ok") != o or (st == "err") != e:
            viol.append((f"single:scratch-files:{name}:{st}", case, f"{case}: after a run that {st} output exists={o} error exists={e}"))
    shutil.rmtree(scratch, ignore_errors=True)
    return {"viol": dedupe(viol), "n": n, "outs": dict(outs)}


def dedupe(viol):
    best = {}
    for s, c, d in viol:
        best.setdefault(s, (c, d))
    return [(s, c, d) for s, (c, d) in best.items()]


def array_alphabet():
    import wf.remote as wr

    echo = [("echo", wr.echo, a, kw) for a, kw in [((), {}), ((0,), {}), ((1,), {}), (([1, [2]],), {"z": 0}), ((), {"z": 1}), ((0, 1), {})]]
    boom = [("boom", wr.boom, (k, m), {}) for k, m in [("plain", "a"), ("plain", "b"), ("value", "c"), ("value", "d"), ("none", ""), ("unpicklable", "u")]]
    return {"echo": echo, "boom": boom}


def protocol_array(chunk):
    from redun.executors.command import get_oneshot_command
    from redun.executors.scratch import write_array_job_scratch_files

    from engine import common

    common.quiet_redun()
    scratch = os.path.join(common.scratch_dir(), f"c32-a-{os.getpid()}")
    viol, n, outs = [], 0, Counter()
    for k, (elems, order) in enumerate(chunk):
        shutil.rmtree(scratch, ignore_errors=True)
        jobs = [make_job(t, a, kw) for (_n, t, a, kw) in elems]
        wants = [local_outcome(t, a, kw) for (_n, t, a, kw) in elems]
        case = {"leg": "array", "elements": [(nm, repr(a), repr(kw)) for (nm, _t, a, kw) in elems], "order": list(order)}
        files = write_array_job_scratch_files(jobs, scratch, "arrayid0")
        cmd = get_oneshot_command(scratch, jobs[0], jobs[0].task, job_options={}, array_uuid="arrayid0")
        if "--array-job" not in cmd or files.input_file not in cmd or files.output_file not in cmd or files.error_file not in cmd:
            viol.append(("array:command", case, f"{case}: {cmd}"))
            continue
        ran = set()
        for i in order:
            st, _ = run_oneshot(cmd, index=i, var=ENV_VARS[(k + i) % 3])
            ran.add(jobs[i].eval_hash)
            n += 1
            got = observed(scratch, jobs[i], st)
            outs[got[0]] += 1
            if got != wants[i]:
                viol.append((f"array:element-differs-from-local:{elems[i][0]}:{wants[i][0]}", case,
                             f"{case}: element {i} of {len(jobs)} gives {got!r}, local call gives {wants[i]!r}"))
            for j, jb in enumerate(jobs):
                o, e = files_of(scratch, jb)
                if jb.eval_hash not in ran and (o or e):
                    viol.append((f"array:element-writes-other-element:{elems[i][0]}", case, f"{case}: after running elements {sorted(ran)} element {j} has output={o} error={e}"))
    shutil.rmtree(scratch, ignore_errors=True)
    return {"viol": dedupe(viol), "n": n, "outs": dict(outs)}


def protocol_history(chunk):
    """Attempt histories of one evaluation on one scratch directory against the reference model of the scratch files."""
    import wf.remote as wr
    from redun.executors.command import get_oneshot_command
    from redun.executors.scratch import write_array_job_scratch_files

    from engine import common

    common.quiet_redun()
    scratch = os.path.join(common.scratch_dir(), f"c32-h-{os.getpid()}")
    viol, n = [], 0
    states = set()
    for hist, no_cache, array in chunk:
        shutil.rmtree(scratch, ignore_errors=True)
        opts = {"cache": False} if no_cache else None
        job = make_job(wr.flaky, (3,), {}, opts)
        other = make_job(wr.flaky, (4,), {}, opts)
        case = {"leg": "history", "attempts": list(hist), "no_cache": no_cache, "array": array}
        if array:
            write_array_job_scratch_files([other, job], scratch, "arrayid1")
            cmd = get_oneshot_command(scratch, other, other.task, job_options=other.get_options(), array_uuid="arrayid1")
        else:
            cmd = get_oneshot_command(scratch, job, job.task, (3,), {}, job_options=job.get_options())
        m_out = False  # reference model: does a valid output exist
        for step, fails in enumerate(hist):
            wr.MODE["fail"] = bool(fails)
            del wr.CALLS[:]
            try:
                st, _ = run_oneshot(cmd, index=1 if array else None)
            finally:
                wr.MODE["fail"] = False
            n += 1
            # model
            if m_out and not no_cache:
                want_st, want_calls = "ok", 0
            else:
                want_calls = 1
                want_st = "err" if fails else "ok"
                m_out = not fails
            want = ("ok", repr(["flaky-ok", 3])) if want_st == "ok" else ("err", ("builtins.RuntimeError", repr(("flaky 3",))))
            got = observed(scratch, job, st)
            states.add((files_of(scratch, job), st))
            where = f"attempt {step + 1} of {list(hist)} (1=fails) no_cache={no_cache} array={array}"
            if st != want_st or got != want:
                viol.append((f"history:stale-or-wrong-report:no_cache={no_cache}:array={array}", case, f"{where}: container {st}, monitor reads {got!r}; expected {want_st} {want!r}"))
            if len(wr.CALLS) != want_calls:
                viol.append((f"history:task-calls:no_cache={no_cache}", case, f"{where}: task body ran {len(wr.CALLS)} times, expected {want_calls}"))
            dst = docker_status(scratch, job)
            if (dst == "SUCCEEDED") != (want_st == "ok"):
                viol.append((f"history:docker-monitor-reads-stale-status:no_cache={no_cache}:array={array}", case,
                             f"{where}: the container {want_st}, the Docker executor's completion rule says {dst}"))
            o, e = files_of(scratch, job)
            if o != (want_st == "ok") or e != (want_st == "err"):
                viol.append((f"history:stale-file-left:no_cache={no_cache}:array={array}", case, f"{where}: output exists={o}, error exists={e} after a container that {want_st}"))
    shutil.rmtree(scratch, ignore_errors=True)
    return {"viol": dedupe(viol), "n": n, "states": states}


def protocol_history_file(chunk):
    """Attempt histories whose output is a File value that something else may rewrite between attempts: a reusable output must still be
    VALID; an invalid one is discarded like a missing one, and never survives a failing retry."""
    import wf.remote as wr
    from redun.executors.command import get_oneshot_command
    from redun.executors.scratch import parse_job_error, parse_job_result, write_array_job_scratch_files

    from engine import common

    common.quiet_redun()
    scratch = os.path.join(common.scratch_dir(), f"c32-f-{os.getpid()}")
    viol, n = [], 0
    for hist, no_cache, array in chunk:
        nested = isinstance(array, str)  # "nested": the File sits inside a dict/list result (single job)
        array = array is True
        shutil.rmtree(scratch, ignore_errors=True)
        os.makedirs(scratch)
        path = os.path.join(scratch, "data.txt")
        opts = {"cache": False} if no_cache else None
        ftask = wr.flaky_files if nested else wr.flaky_file
        job = make_job(ftask, (path,), {}, opts)
        other = make_job(ftask, (path + ".other",), {}, opts)
        case = {"leg": "history-file", "attempts": [list(h) for h in hist], "no_cache": no_cache, "array": array, "nested": nested}
        if array:
            write_array_job_scratch_files([other, job], scratch, "arrayid2")
            cmd = get_oneshot_command(scratch, other, other.task, job_options=other.get_options(), array_uuid="arrayid2")
        else:
            cmd = get_oneshot_command(scratch, job, job.task, (path,), {}, job_options=job.get_options())
        m_out = m_valid = False
        for step, (fails, invalidate) in enumerate(hist):
            if invalidate and os.path.exists(path):
                with open(path, "w") as f:
                    f.write("rewritten by somebody else " + "x" * step)
                m_valid = False
            wr.MODE["fail"] = bool(fails)
            del wr.CALLS[:]
            try:
                st, _ = run_oneshot(cmd, index=1 if array else None)
            finally:
                wr.MODE["fail"] = False
            n += 1
            if m_out and m_valid and not no_cache:
                want_st, want_calls = "ok", 0
            else:
                want_calls = 1
                want_st = "err" if fails else "ok"
                m_out = m_valid = not fails
            where = f"attempt {step + 1} of {[list(h) for h in hist]} ((fails, output rewritten before)) no_cache={no_cache} array={array}"
            if st != want_st or len(wr.CALLS) != want_calls:
                viol.append((f"history-file:wrong-attempt-outcome:no_cache={no_cache}{':nested' if nested else ''}", case, f"{where}: container {st} after {len(wr.CALLS)} calls of the task body, expected {want_st} after {want_calls}"))
                break
            if st == "ok":
                res, exists = parse_job_result(scratch, job)
                if nested and exists and isinstance(res, dict):
                    res = res["report"][0]
                if not exists or type(res).__name__ != "File" or res.path != path:
                    viol.append((f"history-file:wrong-result:no_cache={no_cache}", case, f"{where}: monitor reads {res!r} exists={exists}"))
            else:
                err, _tb = parse_job_error(scratch, job)
                if exc_key(err) != ("builtins.RuntimeError", repr((f"flaky_file {path!r}",))):
                    viol.append((f"history-file:wrong-error:no_cache={no_cache}", case, f"{where}: monitor reads error {err!r}"))
            o, e = files_of(scratch, job)
            dst = docker_status(scratch, job)
            if o != (want_st == "ok") or e != (want_st == "err") or (dst == "SUCCEEDED") != (want_st == "ok"):
                viol.append((f"history-file:stale-file-left:no_cache={no_cache}:array={array}", case,
                             f"{where}: output exists={o}, error exists={e}, Docker completion rule says {dst} after a container that {want_st}"))
    shutil.rmtree(scratch, ignore_errors=True)
    return {"viol": dedupe(viol), "n": n, "states": set()}


# ------------------------------------------------------------------------------------------------ leg: names
PREFIXES = ["redun-job", "a", "a-b-c", "x-array", "array", "-", "job-", "redun-job-array", "0f", "p_q.r"]


def names_leg(ctx):
    import uuid as _uuid

    from redun.executors.aws_batch import get_batch_job_name, get_hash_from_job_name, is_array_job_name

    import wf.remote as wr

    hashes = [make_job(wr.echo, (i,), {}).eval_hash for i in range(3)] + ["0", "a", "array"[:1] * 40, "f" * 40, _uuid.UUID(int=7).hex, "abcdef0123456789" * 2]
    n = 0
    for p in PREFIXES:
        for h in hashes:
            for arr in (False, True):
                name = get_batch_job_name(p, h, array=arr)
                n += 1
                case = {"leg": "names", "prefix": p, "hash": h, "array": arr}
                if get_hash_from_job_name(name) != h:
                    ctx.violation(f"names:hash-round-trip:array={arr}", case, f"{case}: name {name!r} parses to hash {get_hash_from_job_name(name)!r}")
                if is_array_job_name(name) != arr:
                    ctx.violation(f"names:array-flag:array={arr}", case, f"{case}: name {name!r} is_array_job_name={is_array_job_name(name)}")
    return n


# ------------------------------------------------------------------------------------------------ leg: reunite
INFLIGHT = ["SUBMITTED", "PENDING", "RUNNABLE", "STARTING", "RUNNING"]


class FakeBatch:
    """In-process stand-in for the AWS Batch API (only what the executor calls)."""

    def __init__(self):
        self.jobs = {}
        self.order = []
        self.n = 0

    # -- API
    def submit_job(self, jobName, jobQueue, jobDefinition, retryStrategy=None, containerOverrides=None, arrayProperties=None, **kw):
        self.n += 1
        jid = f"batch{self.n}"
        rec = {"jobId": jid, "jobName": jobName, "queue": jobQueue, "status": "RUNNABLE", "command": containerOverrides["command"], "children": []}
        self.jobs[jid] = rec
        self.order.append(jid)
        if arrayProperties:
            for i in range(arrayProperties["size"]):
                cid = f"{jid}:{i}"
                self.jobs[cid] = {"jobId": cid, "jobName": jobName, "queue": jobQueue, "status": "RUNNABLE", "command": rec["command"], "index": i, "parent": jid}
                rec["children"].append(cid)
        return {"jobId": jid, "jobName": jobName, "ResponseMetadata": {"RetryAttempts": 0}}

    def status(self, jid):
        rec = self.jobs[jid]
        if rec.get("children"):
            sts = [self.jobs[c]["status"] for c in rec["children"]]
            if any(s in INFLIGHT for s in sts):
                return "RUNNING" if any(s != "RUNNABLE" for s in sts) else "PENDING"
            return "FAILED" if "FAILED" in sts else "SUCCEEDED"
        return rec["status"]

    def describe(self, jid):
        rec = self.jobs[jid]
        d = {"jobId": jid, "jobName": rec["jobName"], "status": self.status(jid), "container": {"logStreamName": f"log/{jid}"}, "attempts": []}
        if "index" in rec:
            d["arrayProperties"] = {"index": rec["index"]}
        return d

    def describe_jobs(self, jobs):
        return {"jobs": [self.describe(j) for j in jobs if j in self.jobs and not self.jobs[j].get("gone")]}

    def get_paginator(self, name):
        assert name == "list_jobs"
        fb = self

        class P:
            def paginate(self, jobStatus, jobQueue=None, arrayJobId=None):
                if arrayJobId is not None:
                    ids = fb.jobs[arrayJobId]["children"]
                else:
                    ids = [j for j in fb.order if fb.jobs[j]["queue"] == jobQueue]
                summ = [fb.describe(j) for j in ids if fb.status(j) == jobStatus]
                # two pages, to exercise the pagination loops
                return [{"jobSummaryList": summ[:1]}, {"jobSummaryList": summ[1:]}]

        return P()

    # -- the "cloud" running a container
    def run(self, jid):
        rec = self.jobs[jid]
        if rec.get("children"):
            for c in rec["children"]:
                self.run(c)
            return
        if rec["status"] not in INFLIGHT:
            return
        if rec["command"] is None:
            rec["status"] = "SUCCEEDED"
            return
        st, _ = run_oneshot(rec["command"], index=rec.get("index"))
        rec["status"] = "SUCCEEDED" if st == "ok" else "FAILED"


class RScheduler:
    def __init__(self):
        import types

        self.reported = []
        self.errors = []
        self.tags = []
        self.logger = types.SimpleNamespace(level=100)
        self.config = types.SimpleNamespace(configdir="/nonexistent")

    def done_job(self, job, result, job_tags=()):
        self.reported.append((job.id, ("ok", repr(result))))

    def reject_job(self, job, error, error_traceback=None, job_tags=()):
        if job is None:
            self.errors.append(error)
        else:
            self.reported.append((job.id, ("err", exc_key(error))))

    def add_job_tags(self, job, tags):
        self.tags.append((job.id, tags))

    def log(self, *a, **k):
        pass


def evaluations():
    import wf.remote as wr

    return [(wr.boom, ("plain", "a")), (wr.boom, ("plain", "b")), (wr.boom, ("value", "c"))]


def new_executor(scratch, prefix, sched):
    from redun.config import Config
    from redun.executors.aws_batch import AWSBatchExecutor

    conf = Config({"e": {"image": "img", "queue": "q1", "s3_scratch": scratch, "job_name_prefix": prefix, "code_package": "False", "min_array_size": "2",
                         "aws_region": "us-west-2", "debug_scratch": os.path.join(scratch, "debug")}})["e"]
    ex = AWSBatchExecutor("e", scheduler=sched, config=conf)
    ex.set_scheduler(sched)
    added = []

    class Arr:
        num_pending = 0

        def add_job(self, job):
            added.append(job)

        def stop(self):
            pass

    ex.arrayer = Arr()
    ex._start = lambda: setattr(ex, "is_running", True)
    return ex, added


def submit_grouped(ex, jobs, grouping):
    """Hand jobs to the executor the way the arrayer would: 'singles', 'array' (one array) or 'mixed' (first alone, rest as array)."""
    if grouping == "singles" or len(jobs) < 2:
        groups = [[j] for j in jobs]
    elif grouping == "array":
        groups = [list(jobs)]
    else:
        groups = [[jobs[0]], list(jobs[1:])]
    for g in groups:
        ex._submit_jobs(g)


def reunite_scenarios(quick):
    evs = range(3)
    out = []
    for n in (1, 2, 3):
        for s1 in itertools.permutations(evs, n):
            for grouping in (("singles",) if n == 1 else ("singles", "array", "mixed") if n == 3 else ("singles", "array")):
                for fin in itertools.product((0, 1), repeat=n):  # 1 = this remote job finished before the scheduler came back
                    s2s = [s2 for m in (1, 2, 3) for s2 in itertools.combinations(evs, m)]
                    # twins: two jobs of the same evaluation submitted in the second session (cache=False twins, or two parents)
                    s2s += [(s1[0], s1[0])] + ([(s1[0], s1[-1], s1[0])] if n > 1 else [])
                    for s2 in s2s:
                        for g2 in (("singles",) if quick else ("singles", "array")):
                            out.append((s1, grouping, fin, s2, g2))
    return out


def reunite_work(arg):
    import redun.executors.aws_batch as ab
    from redun.executors import aws_utils

    from engine import common

    common.quiet_redun()
    chunk, prefix = arg
    scratch = os.path.join(common.scratch_dir(), f"c32-r-{os.getpid()}")
    evs = evaluations()
    viol, n = [], 0
    stats = Counter()
    saved = (aws_utils.get_aws_client, ab.get_or_create_job_definition, ab.parse_job_logs, aws_utils.get_aws_user)
    fb_box = [None]
    aws_utils.get_aws_client = lambda service, aws_region=None: fb_box[0]
    ab.get_or_create_job_definition = lambda *a, **k: {"jobDefinitionArn": "arn:jd"}
    ab.parse_job_logs = lambda *a, **k: iter(())
    aws_utils.get_aws_user = lambda *a, **k: "user"
    try:
        for (s1, grouping, fin, s2, g2) in chunk:
            shutil.rmtree(scratch, ignore_errors=True)
            fb = fb_box[0] = FakeBatch()
            case = {"leg": "reunite", "prefix": prefix, "session1": list(s1), "grouping1": grouping, "finished": list(fin), "session2": list(s2), "grouping2": g2}
            # unrelated jobs on the same queue: another workflow, a head node, a foreign array without eval-hash file
            fb.submit_job(f"{prefix}-{'f' * 40}", "q1", "arn", containerOverrides={"command": None})
            fb.submit_job(f"{prefix}-headnode", "q1", "arn", containerOverrides={"command": None})
            fb.submit_job(f"{prefix}-{'e' * 32}-array", "q1", "arn", containerOverrides={"command": None}, arrayProperties={"size": 2})
            fb.submit_job(f"other-{make_job(*evs[0], {}).eval_hash}", "q1", "arn", containerOverrides={"command": None})

            # ---- session 1
            sch1 = RScheduler()
            ex1, _added1 = new_executor(scratch, prefix, sch1)
            jobs1 = [make_job(evs[i][0], evs[i][1], {}) for i in s1]
            submit_grouped(ex1, jobs1, grouping)
            created_for = {bid: j.eval_hash for bid, j in ex1.pending_batch_jobs.items()}  # ground truth: batch job id -> evaluation
            if sorted(created_for.values()) != sorted(j.eval_hash for j in jobs1):
                viol.append(("reunite:session1-submission", case, f"{case}: pending {created_for}"))
                continue
            # some remote jobs finish while no scheduler is watching
            for (bid, _h), f in zip(list(created_for.items()), fin):
                if f:
                    fb.run(bid)
            # ---- session 2: a new scheduler process, same scratch space
            sch2 = RScheduler()
            ex2, added2 = new_executor(scratch, prefix, sch2)
            jobs2 = [make_job(evs[i][0], evs[i][1], {}) for i in s2]
            for j in jobs2:
                ex2._submit(j)
            n += 1
            inflight_hashes = {h for bid, h in created_for.items() if fb.jobs[bid]["status"] in INFLIGHT}
            for bid, j in ex2.pending_batch_jobs.items():
                stats["reunited"] += 1
                if created_for.get(bid) != j.eval_hash:
                    viol.append(("reunite:paired-with-job-of-other-evaluation", case,
                                 f"{case}: redun job for evaluation {j.eval_hash[:8]} ({j.task.fullname}{j.args[0]}) was reunited with batch job {bid} created for {str(created_for.get(bid))[:8]}"))
            stats["expected_reunions"] += len(inflight_hashes & {j.eval_hash for j in jobs2})
            stats["new_submissions"] += len(added2)
            both = {id(j) for j in added2} & {id(j) for j in ex2.pending_batch_jobs.values()}
            if both:
                viol.append(("reunite:job-both-reunited-and-resubmitted", case, f"{case}"))
            # the arrayer hands over the rest; the cloud runs everything; the monitor reads the results
            submit_grouped(ex2, added2, g2)
            for bid in list(fb.order):
                fb.run(bid)
            for bid in list(ex2.pending_batch_jobs):
                ex2._process_job_status(fb.describe(bid))
            rep = Counter(jid for jid, _ in sch2.reported)
            got = dict(sch2.reported)
            for j, i in zip(jobs2, s2):
                want = local_outcome(evs[i][0], evs[i][1], {})
                if rep[j.id] != 1:
                    viol.append(("reunite:job-not-reported-once", case, f"{case}: job for evaluation {i} reported {rep[j.id]} times"))
                elif got[j.id] != want:
                    viol.append((f"reunite:result-differs-from-local:{want[0]}", case, f"{case}: evaluation {i} reported {got[j.id]!r}, local call gives {want!r}"))
            if sch1.errors or sch2.errors:
                viol.append(("reunite:executor-error", case, f"{case}: {sch1.errors + sch2.errors!r}"))
    finally:
        aws_utils.get_aws_client, ab.get_or_create_job_definition, ab.parse_job_logs, aws_utils.get_aws_user = saved
        shutil.rmtree(scratch, ignore_errors=True)
    return {"viol": dedupe(viol), "n": n, "stats": dict(stats)}


# ------------------------------------------------------------------------------------------------ driver
def run(ctx):
    import wf.remote  # noqa: F401

    from engine.common import check_harness_errors

    def chunks(xs, k):
        return [xs[i:i + k] for i in range(0, len(xs), k)]

    cs = callsets(ctx.quick)
    single_items = [(n, t, a, kw, nc) for (n, t, a, kw) in cs for nc in (False, True)]
    r1 = ctx.pmap(protocol_single, chunks(ctx.rotate(single_items), 25), chunksize=1)
    check_harness_errors(r1)
    ctx.add_results(r1)

    arrays = []
    maxn = 3
    for _name, alpha in array_alphabet().items():
        for n in range(1, maxn + 1):
            for elems in itertools.product(alpha, repeat=n):
                orders = [tuple(range(n)), tuple(reversed(range(n)))] if n > 1 else [(0,)]
                if not ctx.quick and n == 3:
                    orders = list(itertools.permutations(range(n)))
                for order in orders:
                    arrays.append((elems, order))
    r2 = ctx.pmap(protocol_array, chunks(ctx.rotate(arrays), 20), chunksize=1)
    check_harness_errors(r2)
    ctx.add_results(r2)

    L = ctx.pick(4, 6)
    hists = [(h, nc, arr) for k in range(1, L + 1) for h in itertools.product((0, 1), repeat=k) for nc in (False, True) for arr in (False, True)]
    r3 = ctx.pmap(protocol_history, chunks(ctx.rotate(hists), 10), chunksize=1)
    check_harness_errors(r3)
    ctx.add_results(r3)
    Lf = ctx.pick(3, 4)
    steps = [(0, 0), (1, 0), (0, 1), (1, 1)]
    fhists = [(h, nc, arr) for k in range(1, Lf + 1) for h in itertools.product(steps, repeat=k) for nc in (False, True) for arr in (False, True, "nested")]
    r3f = ctx.pmap(protocol_history_file, chunks(ctx.rotate(fhists), 12), chunksize=1)
    check_harness_errors(r3f)
    ctx.add_results(r3f)
    r3 = r3 + r3f
    hists = hists + fhists

    n_names = names_leg(ctx)

    scen = reunite_scenarios(ctx.quick)
    prefixes = ["redun-job", "x-array"] if ctx.quick else ["redun-job", "x-array", "a-b-c", "array"]
    work = [(c, p) for p in prefixes for c in chunks(ctx.rotate(scen), 40)]
    r4 = ctx.pmap(reunite_work, work, chunksize=1)
    check_harness_errors(r4)
    ctx.add_results(r4)
    stats = Counter()
    for r in r4:
        stats.update(r["stats"])
    outs = Counter()
    for r in r1 + r2:
        outs.update(r["outs"])
    hstates = set()
    for r in r3:
        hstates |= r["states"]
    return {"coverage": {
        "evaluations": sum(r["n"] for r in r1 + r2 + r3) + n_names + sum(r["n"] for r in r4),
        "distinct_nontrivial": len(cs) + len(arrays) + len(hists) + len(scen) * len(prefixes),
        "oneshot_runs_single": sum(r["n"] for r in r1), "oneshot_runs_array_elements": sum(r["n"] for r in r2), "arrays": len(arrays),
        "attempt_histories": len(hists), "attempts_run": sum(r["n"] for r in r3), "scratch_states_seen": len(hstates),
        "job_names": n_names, "reunite_scenarios": sum(r["n"] for r in r4), "reunions_observed": stats["reunited"],
        "reunions_possible": stats["expected_reunions"], "new_submissions": stats["new_submissions"], "protocol_outcomes": dict(outs), "exhaustive": True,
        "rule": f"protocol: {len(cs)} call-sets (variadic echo over <=2 values from {6 if ctx.quick else 8}, keyword/default forms, 6 result/exception kinds incl. an "
        f"unpicklable exception) x cache flag as single jobs; every array of <=3 elements over 6-element alphabets of two tasks, every index, run in "
        f"{'2 orders' if ctx.quick else 'every order'}, index supplied through each of the 3 environment variables; every attempt history (ok/fail) of length <= {L} "
        "x cache flag x single/array element against the reference model of the scratch files (stale output/error never read, body runs iff no reusable "
        f"output); the same with a File-valued output that is rewritten between attempts (a reusable output must still be valid). names: {len(PREFIXES)} prefixes x 9 hashes x array flag. reunite: every ordered subset of 3 evaluations x grouping into single/array "
        f"submissions x every subset finished before the second session x every subset resubmitted (plus twin jobs of one evaluation), x {len(prefixes)} job-name prefixes, with unrelated "
        "jobs on the queue; real executor code against a fake Batch API whose containers run the real oneshot entry point",
        "samples": [repr(single_items[0][2:]), repr(scen[0])],
    }, "assumptions": ["results and exceptions of the alphabet round-trip through pickle (an exception that cannot be pickled is compared with the documented "
                       "generic Exception(repr(error)))", "oneshot runs in-process, not in a container; the AWS Batch API is an in-process fake; only the "
                       "AWS Batch executor's reuniting is exercised", "monitor and arrayer threads are not part of this check (C10, C11)"]}
