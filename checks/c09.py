"""C09 — executions terminate with every job settled (no quiescent-but-unfinished state is reachable)."""
LEVEL = "model_checking"


def run(ctx):
    from checks import sched_common

    cov = sched_common.run_property(ctx, "C09")
    cov["rule"] = ("sharp drivers under every feasible limits configuration; all completion interleavings; oracle: the controlled "
                   "loop never reaches 'no queued event, nothing in flight, workflow pending'; no execution exceeds the horizon; "
                   "when run returns, no job is pending, waiting for limits or in flight")
    return {"coverage": cov, "assumptions": ["every task function terminates (they are straight-line)",
                                             "for executions that raise, abandoned in-flight siblings are not required to settle"]}


def replay(ctx, case):
    from checks import sched_common

    return sched_common.replay("C09", case)
