"""C37 — the task registry stays consistent under define / redefine / wrap / double-wrap histories (BFS on the real registry)."""
from __future__ import annotations

import collections
import sys

LEVEL = "model_checking"

NS = "c37"
# namespace inference for functions defined in THIS module (the wrappers' inner functions are): a wrapped task must keep its own
# namespace - also the empty one - and never be re-namespaced from the wrapper's module
redun_namespace = "c37_wrapper_module"
NSOF = {"f": NS, "g": NS, "e": ""}  # task "e" lives in the empty namespace


def full(name):
    return f"{NSOF[name]}.{name}" if NSOF[name] else name


def alphabet():
    ops = []
    for name in ("f", "g"):
        for body in (0, 1):
            ops.append(("define", name, body))
        for w in ("w1", "w2"):
            ops.append(("wrap", name, w))
    ops.append(("define", "e", 0))
    ops.append(("wrap", "e", "w1"))
    ops.append(("define_same_hash", "f", "g"))  # two names, identical hash impossible (name is hashed) -> same source different name
    return ops


class Model:
    """Reference: visible name -> stack of (wrapper names outermost first, body of the innermost)."""

    def __init__(self):
        self.visible = {}  # name -> {"wrappers": [..outermost first..], "body": b}

    def apply(self, op):
        if op[0] == "define":
            self.visible[op[1]] = {"wrappers": [], "body": op[2]}
            return True
        if op[0] == "wrap":
            if op[1] not in self.visible:
                return False
            self.visible[op[1]]["wrappers"].insert(0, op[2])
            return True
        if op[0] == "define_same_hash":
            return True
        return False

    def expected_names(self):
        """fullnames that must resolve: visible name, and each hidden layer under <ns>.<outer wrappers...>.<name>."""
        out = {}
        for name, st in self.visible.items():
            ws = st["wrappers"]
            out[full(name)] = ("visible", name, len(ws))
        return out


def replay(hist):
    """Replay a history on a fresh registry swapped in for the global one. Returns (registry, model, applied, tasks, error)."""
    from redun import task
    from redun.task import TaskRegistry, wraps_task

    tm = sys.modules["redun.task"]
    saved = tm._task_registry
    reg = TaskRegistry()
    tm._task_registry = reg
    m = Model()
    err = None
    try:
        for op in hist:
            if not m.apply(op):
                return reg, m, False, err
            try:
                if op[0] == "define":
                    def fn(x):
                        return x
                    task(name=op[1], namespace=NSOF[op[1]], source=f"def {op[1]}(x): return x + {op[2]}")(fn)
                elif op[0] == "wrap":
                    cur = reg.get(full(op[1]))

                    @wraps_task(wrapper_name=op[2])
                    def wrapper(inner):
                        def do(*a, **k):
                            return inner.func(*a, **k)
                        return do

                    wrapper(cur)
                elif op[0] == "define_same_hash":
                    def fn2(x):
                        return x
                    task(name="h", namespace=NS, source="def h(x): return x")(fn2)
            except Exception as e:  # noqa: BLE001
                err = f"{op}: {type(e).__name__}: {e}"
                break
    finally:
        tm._task_registry = saved
    return reg, m, True, err


def invariants(reg, m, hist):
    out = []
    tasks = list(reg)
    try:
        th = reg.task_hashes
    except AssertionError as e:
        return [("hash-count-below-one", str(e))]
    real = {t.hash for t in tasks}
    if th != real:
        out.append(("task_hashes-mismatch", f"task_hashes has {len(th - real)} stale and lacks {len(real - th)} live hashes"))
    if any(c < 1 for c in reg._task_hash_counts.values()):
        out.append(("hash-count-below-one", str(dict(reg._task_hash_counts))))
    from collections import Counter

    cnt = Counter(t.hash for t in tasks)
    for h, c in reg._task_hash_counts.items():
        if cnt.get(h, 0) != c:
            out.append(("hash-count-wrong", f"hash {h[:8]}: counted {c}, held by {cnt.get(h, 0)} tasks"))
            break
    for t in tasks:
        if reg.get(t.fullname) is not t:
            out.append(("fullname-lookup", f"get({t.fullname}) is not the task stored under it"))
        if reg.get(hash=t.hash) is None:
            out.append(("hash-lookup", f"get(hash) fails for {t.fullname}"))
    for name, st in m.visible.items():
        vis = reg.get(full(name))
        if vis is None:
            out.append(("visible-name-lost", f"{full(name)} not in registry after {hist}"))
            continue
        ws = st["wrappers"]
        # walk the wrapped_task chain: each layer must resolve, and keep the short name
        cur, depth = vis, 0
        while cur.get_task_option("wrapped_task", None) is not None:
            nxt = reg.get(cur.get_task_option("wrapped_task"))
            if nxt is None:
                out.append(("wrapped-task-dangling", f"{cur.fullname} -> {cur.get_task_option('wrapped_task')} not registered"))
                break
            if nxt.name != name:
                out.append(("wrapped-task-renamed", f"{nxt.fullname} lost its name {name}"))
            cur, depth = nxt, depth + 1
        if depth != len(ws):
            out.append(("wrapper-chain-length", f"{full(name)}: chain {depth}, expected {len(ws)}"))
        if ws:
            exp_inner_ns = NS + "." + ".".join(reversed(ws)) if False else None
            if not cur.namespace.startswith((NSOF[name] + ".") if NSOF[name] else tuple(ws)) or cur.namespace.split(".")[-1] not in ws:
                out.append(("inner-namespace", f"innermost task of {name} lives in '{cur.namespace}', wrappers {ws}"))
    return out


def key_of(reg, m):
    return (tuple(sorted((t.fullname, t.hash) for t in reg)), tuple(sorted(reg._task_hash_counts.items())),
            tuple(sorted((k, tuple(v["wrappers"]), v["body"]) for k, v in m.visible.items())))


def run(ctx):
    L = ctx.pick(4, 7)
    ops = ctx.rotate(alphabet())
    reg0, m0, _, _ = replay(())
    seen = {key_of(reg0, m0)}
    frontier = collections.deque([()])
    transitions = 0
    samples = []
    while frontier:
        hist = frontier.popleft()
        if len(hist) >= L:
            continue
        for op in ops:
            h2 = hist + (op,)
            reg, m, applied, err = replay(h2)
            if not applied:
                continue
            transitions += 1
            kinds = "+".join(sorted({o[0] for o in h2}))
            if err:
                ctx.violation(f"operation-raises:{kinds}", {"history": [list(o) for o in h2]}, f"history {h2}: {err}")
                continue
            bad = invariants(reg, m, h2)
            for kind, detail in bad[:3]:
                ctx.violation(f"{kind}:{kinds}", {"history": [list(o) for o in h2]}, f"history {h2}: {detail}")
            if bad:
                continue
            k = key_of(reg, m)
            if k not in seen:
                seen.add(k)
                frontier.append(h2)
                if len(samples) < 3 and len(h2) == 3:
                    samples.append(repr(h2))
    return {"coverage": {
        "states": len(seen), "transitions": transitions, "traces_validated_against_impl": transitions,
        "max_depth": L, "alphabet_size": len(ops), "exhaustive": True,
        "rule": f"BFS over all histories of <= {L} operations (define f/g with body 0/1 incl. redefinition, wrap f/g with wrapper w1/w2 incl. "
        "double wrapping, define / wrap a task in the EMPTY namespace with a wrapper whose module declares a redun_namespace, define a third task) on a fresh TaskRegistry swapped in for the global one; states merged on (fullname->hash map, hash "
        "counts, reference wrapper stacks); invariants after every operation: task_hashes == hashes of held tasks, counts exact and >= 1, lookup "
        "by fullname/hash, wrapper chain resolves and keeps the visible name",
        "samples": samples or ["()"],
    }, "assumptions": []}
