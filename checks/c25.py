"""C25 — handle lineage and rollback follow the state model (BFS over advance / rollback histories on the real backend),
and a cached result containing an invalidated handle state is never replayed (workflow-level histories)."""
from __future__ import annotations

import os
import shutil
import sqlite3

LEVEL = "model_checking"

# A handle state is described by its derivation path from a root: ("a",) -> ("a","f1") fork with key "1" -> ("a","f1","c7") call c7
MAX_DEPTH = 3


def build(path):
    import wf.tasks as T

    h = T.H(path[0])
    for step in path[1:]:
        if step[0] == "f":
            h = h.fork(step[1:])
        else:
            # like the scheduler: the call hash is the eval hash of the call, which covers the incoming handle's hash
            h = h.apply_call("call" + step[1:] + ":" + h.__handle__.hash)
    return h


def enabled_ops(model, tier):
    """Well-formed operations in a model state: advance only from valid (or never recorded) states, rollback of valid states."""
    known = model["valid"]
    ops = []
    roots = [("a",)] + ([("b",)] if tier != "quick" else [])
    cands = set(known) | set(roots)
    for s in sorted(cands):
        if s in known and not known[s]:
            continue
        if len(s) <= MAX_DEPTH:
            for step in ("f1", "f2", "c1", "c2"):
                ops.append(("advance", (s,), s + (step,)))
        if s in known:
            ops.append(("rollback", s))
    valid_states = sorted(s for s, v in known.items() if v)
    for s1 in valid_states:
        for s2 in valid_states:
            if s1 != s2 and s1[0] == s2[0] and len(s1) > 1 and len(s2) > 1 and s1[:-1] != s2 and s2[:-1] != s1:
                ops.append(("merge", (s2,), s1))  # merge_handles: advance_handle(others=[s2], final=s1)
    return ops


def model_apply(model, op):
    valid = dict(model["valid"])
    edges = set(model["edges"])
    if op[0] in ("advance", "merge"):
        parents, child = op[1], op[2]
        valid[child] = True
        for p in parents:
            valid[p] = True
            edges.add((p, child))
    elif op[0] == "rollback":
        s = op[1]
        stack = [c for p, c in edges if p == s]
        seen = set()
        while stack:
            n = stack.pop()
            if n in seen:
                continue
            seen.add(n)
            valid[n] = False
            stack.extend(c for p, c in edges if p == n)
    return {"valid": valid, "edges": frozenset(edges)}


class WorkerDB:
    def __init__(self):
        from engine import common, seams

        self.path = os.path.join(common.scratch_dir(), f"c25-work-{os.getpid()}.db")
        shutil.copyfile(seams.template_db(), self.path)
        self.backend = seams.open_backend(self.path)

    def load(self, src):
        self.backend.session.close()
        self.backend.engine.dispose()
        shutil.copyfile(src, self.path)

    def save(self, dst):
        self.backend.session.close()
        self.backend.engine.dispose()
        shutil.copyfile(self.path, dst)


_w = {}


def worker():
    if _w.get("pid") != os.getpid():
        _w["pid"] = os.getpid()
        _w["db"] = WorkerDB()
    return _w["db"]


def do_transition(arg):
    parent_db, dst_db, op, known = arg
    w = worker()
    w.load(parent_db)
    b = w.backend
    try:
        if op[0] in ("advance", "merge"):
            parents = [build(p) for p in op[1]]
            child = build(op[2])
            for p in parents:
                p.__handle__.is_recorded = True  # parents are states already known to the backend (or roots)
            b.advance_handle(parents, child)
        else:
            b.rollback_handle(build(op[1]))
            b.session.commit()
        obs = {}
        for s in known:
            obs[s] = bool(b.is_valid_handle(build(s)))
    except Exception as e:  # noqa: BLE001
        try:
            b.session.rollback()
        except Exception:  # noqa: BLE001
            pass
        return {"error": repr(e), "etype": type(e).__name__}
    w.save(dst_db)
    con = sqlite3.connect(dst_db)
    try:
        key = (tuple(con.execute("select hash, is_valid from handle order by hash").fetchall()),
               tuple(con.execute("select parent_id, child_id from handle_edge order by 1,2").fetchall()))
    finally:
        con.close()
    return {"obs": obs, "key": key}


def run(ctx):
    from engine import common, seams
    from engine.common import check_harness_errors

    seams.template_db()
    import wf.tasks  # noqa: F401

    L = ctx.pick(4, 5)
    base = seams.fresh_db_path("c25base")
    work = os.path.join(common.scratch_dir(), "c25-states")
    os.makedirs(work, exist_ok=True)
    m0 = {"valid": {}, "edges": frozenset()}
    level = [(base, (), m0)]
    seen = {((), ())}
    transitions = counter = 0
    best = {}
    samples = []
    nontrivial = 0
    for depth in range(1, L + 1):
        jobs, meta = [], []
        for db, hist, model in level:
            for op in ctx.rotate(enabled_ops(model, ctx.tier)):
                counter += 1
                dst = os.path.join(work, f"s{counter}.db")
                m2 = model_apply(model, op)
                jobs.append((db, dst, op, sorted(m2["valid"])))
                meta.append((hist + (op,), m2, dst))
        res = ctx.pmap(do_transition, jobs, chunksize=8)
        check_harness_errors(res)
        nxt = []
        for (h2, m2, dst), r in zip(meta, res):
            kinds = "+".join(sorted({o[0] for o in h2}))
            if "error" in r:
                sig = f"operation-raises:{r['etype']}:{kinds}"
                if sig not in best or len(h2) < len(best[sig][0]):
                    best[sig] = (h2, f"history {h2}: {r['error']}")
                continue
            transitions += 1
            if any(not v for v in m2["valid"].values()):
                nontrivial += 1
            bad = {s: (r["obs"][s], m2["valid"][s]) for s in m2["valid"] if r["obs"][s] != m2["valid"][s]}
            if bad:
                s0 = sorted(bad)[0]
                direction = "stays-valid" if bad[s0][0] else "stays-invalid"
                sig = f"validity-differs:{direction}:last={h2[-1][0]}:{kinds}"
                if sig not in best or len(h2) < len(best[sig][0]):
                    best[sig] = (h2, f"history {h2}: is_valid_handle vs lineage model (impl, model): {bad}")
                continue
            if r["key"] not in seen:
                seen.add(r["key"])
                nxt.append((dst, h2, m2))
                if len(samples) < 3 and len(h2) == 3 and h2[-1][0] == "rollback":
                    samples.append(repr(h2))
            else:
                try:
                    os.remove(dst)
                except FileNotFoundError:
                    pass
        for db, _, _ in level:
            if db != base:
                try:
                    os.remove(db)
                except FileNotFoundError:
                    pass
        level = nxt
    shutil.rmtree(work, ignore_errors=True)
    for sig, (h2, detail) in best.items():
        ctx.violation(sig, {"history": repr(h2)}, detail)
    wf = workflow_leg(ctx)
    return {"coverage": {
        "states": len(seen), "transitions": transitions, "traces_validated_against_impl": transitions + wf,
        "max_depth": L, "transitions_with_an_invalid_state": nontrivial, "workflow_histories": wf, "exhaustive": True,
        "rule": f"level-synchronous BFS over all well-formed histories of <= {L} operations on the real backend: advance by fork (keys 1,2) or "
        "call (c1,c2) from any valid or new state up to derivation depth 3, merge of two valid states of one handle name, rollback of any "
        "valid known state; states = database files merged on equal handle/handle_edge tables; after every operation is_valid_handle of every "
        "known state equals the reference lineage model; plus workflow-level edit/revert histories of a handle-writing pipeline",
        "samples": samples or ["-"],
    }, "assumptions": ["histories are well-formed: the scheduler only advances from, and rolls back to, states that are valid or new"]}


# ------------------------------------------------------------------------------------------------ workflow level
def workflow_leg(ctx):
    """The documented pipeline: a handle passes through load tasks; tasks are edited and reverted between runs.
    Oracle: a task whose incoming handle state was invalidated (or is new) must run again; result handle hashes equal the
    hashes a fresh backend gives for the same code."""
    import itertools

    from redun import task

    import wf.tasks as T
    from engine import crash, seams

    calls = []

    def define(bodies):
        def load1(h, x):
            calls.append("load1")
            return h

        def load2(h, x):
            calls.append("load2")
            return h

        def pipeline():
            h = T.H("conn")
            h1 = reg["load1"](h, 1)
            return reg["load2"](h1, 2)

        reg = {}
        reg["load1"] = task(name="load1", namespace="c25", source=f"load1 body {bodies[0]}")(load1)
        reg["load2"] = task(name="load2", namespace="c25", source=f"load2 body {bodies[1]}")(load2)
        reg["pipeline"] = task(name="pipeline", namespace="c25", source="pipeline")(pipeline)
        return reg

    n = 0
    body_states = list(itertools.product([0, 1], [0, 1]))
    L = ctx.pick(3, 4)
    for hist in itertools.product(body_states, repeat=L):
        db = seams.fresh_db_path("c25wf")
        executed_state = {}  # what the external system would contain: handle hash -> produced by which (task body) chain
        last_chain = None
        for i, bodies in enumerate(hist):
            reg = define(bodies)
            calls.clear()
            st, outs, _ = crash.run_workload(lambda env: [env.run(reg["pipeline"]())], db, id_salt=i)
            ran = list(calls)
            fresh = seams.fresh_db_path("c25fresh")
            reg = define(bodies)
            calls.clear()
            _, exp, _ = crash.run_workload(lambda env: [env.run(reg["pipeline"]())], fresh)
            seams.remove_db(fresh)
            n += 1
            got_hash = repr(outs[0][1]) if outs and outs[0][0] == "ok" else repr(outs)
            exp_hash = repr(exp[0][1]) if exp and exp[0][0] == "ok" else repr(exp)
            if got_hash != exp_hash:
                ctx.violation("workflow:result-handle-differs", {"history": repr(hist[: i + 1])},
                              f"bodies history {hist[: i + 1]}: result {got_hash} but a fresh backend gives {exp_hash}")
            # the external state is determined by the chain of bodies last actually executed
            chain = tuple(bodies)
            must_run = []
            if last_chain is None:
                must_run = ["load1", "load2"]
            else:
                if chain[0] != last_chain[0]:
                    must_run = ["load1", "load2"]
                elif chain[1] != last_chain[1]:
                    must_run = ["load2"]
            for t in must_run:
                if t not in ran:
                    ctx.violation(f"workflow:stale-handle-replayed:{t}", {"history": repr(hist[: i + 1])},
                                  f"bodies history {hist[: i + 1]}: the external state was last written by bodies {last_chain}; task {t} "
                                  f"had to run again but only {ran} ran")
            last_chain = chain
        seams.remove_db(db)
    n += forkjoin_leg(ctx)
    return n


def forkjoin_leg(ctx):
    """A task that takes TWO states of one handle (two fork branches) and returns the first: when it is edited, every state derived from
    either argument has to be invalidated. Body histories of (left, join) as above."""
    import itertools

    from redun import task

    import wf.tasks as T
    from engine import crash, seams

    calls = []

    def define(bodies):
        reg = {}

        def left(h):
            calls.append("left")
            return h

        def right(h):
            calls.append("right")
            return h

        def join(a, b):
            calls.append("join")
            return a

        def finish(h):
            calls.append("finish")
            return h

        def pipeline2():
            h = T.H("conn2")
            return reg["finish"](reg["join"](reg["left"](h), reg["right"](h)))

        reg["left"] = task(name="left", namespace="c25f", source=f"left body {bodies[0]}")(left)
        reg["right"] = task(name="right", namespace="c25f", source="right")(right)
        reg["join"] = task(name="join", namespace="c25f", source=f"join body {bodies[1]}")(join)
        reg["finish"] = task(name="finish", namespace="c25f", source="finish")(finish)
        reg["pipeline2"] = task(name="pipeline2", namespace="c25f", source="pipeline2")(pipeline2)
        return reg

    n = 0
    body_states = list(itertools.product([0, 1], [0, 1]))
    L = ctx.pick(3, 4)
    for hist in itertools.product(body_states, repeat=L):
        db = seams.fresh_db_path("c25fj")
        last = None
        for i, bodies in enumerate(hist):
            reg = define(bodies)
            calls.clear()
            crash.run_workload(lambda env: [env.run(reg["pipeline2"]())], db, id_salt=i)
            ran = list(calls)
            n += 1
            must = []
            if last is None:
                must = ["left", "right", "join", "finish"]
            elif bodies[0] != last[0]:
                must = ["left", "join", "finish"]
            elif bodies[1] != last[1]:
                must = ["join", "finish"]
            for t in must:
                if t not in ran:
                    ctx.violation(f"workflow:forkjoin:stale-handle-replayed:{t}", {"history": repr(hist[: i + 1])},
                                  f"fork/join bodies history (left, join) {hist[: i + 1]}: the external state was last written by bodies {last}; task {t} "
                                  f"had to run again but only {ran} ran")
            last = tuple(bodies)
        seams.remove_db(db)
    return n
