"""C26 — context is inherited down the job tree, deep-merged with update_context overrides, and read by dotted path."""
from __future__ import annotations

import itertools

LEVEL = "exploration"

OVERRIDES = [None, {"a": 1}, {"a": {"b": 1}}, {"a": {"b": None, "a": 0}}, {"a": {"b": 2, "a": 1}}, {"b": {"a": {"b": 3}}}, {"a": {}}, {"a": [1]}, {}, {"a": {"b": {"a": 7}}}]
CONFIG_CTX = [None, {"a": 1}, {"a": {"b": 0, "a": {"b": 9}}}]
RUN_CTX = [{}, {"a": {"a": 5}}, {"b": 1}]
PATHS = [".".join(p) for n in (1, 2, 3) for p in itertools.product("ab", repeat=n)] + ["c", "a.c", "a.b.a.b", "a.b.c.d"]


def ref_merge(dicts):
    if len(dicts) == 1:
        return dicts[0]
    if any(not isinstance(d, dict) for d in dicts):
        return dicts[-1]
    keys = []
    for d in dicts:
        for k in d:
            if k not in keys:
                keys.append(k)
    return {k: ref_merge([d[k] for d in dicts if k in d]) for k in keys}


def ref_get(ctx, path, default):
    v = ctx
    for part in path.split("."):
        if not isinstance(v, dict) or part not in v:
            return default
        v = v[part]
    return v


def tasks():
    from redun import task
    from redun.context import get_context

    def lvl(overrides, paths):
        if not overrides:
            return {"body": [get_context(p, "DEF") for p in paths], "dflt": REG["probe"]()}
        o = overrides[0]
        t = REG["lvl"] if o is None else REG["lvl"].update_context(o)
        return t(overrides[1:], paths)

    def probe(v=get_context("a.b", "DEF"), w=get_context("a", "DEF")):
        return [v, w]

    def sib(overrides):
        # sibling calls from ONE parent job that differ only in their context overrides
        return [(REG["probe"] if o is None else REG["probe"].update_context(o))() for o in overrides]

    REG = {}
    REG["sib"] = task(name="sib", namespace="c26")(sib)
    REG["lvl"] = task(name="lvl", namespace="c26")(lvl)
    REG["probe"] = task(name="probe", namespace="c26")(probe)
    return REG


def work(chunk):
    from engine import evloop
    from engine.progs import typed_key

    REG = tasks()
    viol = []
    n = 0
    shapes = set()
    for ovs, cfg, runctx in chunk:
        env = evloop.Env([], context=cfg)
        try:
            first = ovs[0]
            t = REG["lvl"] if first is None else REG["lvl"].update_context(first)
            out = env.run(t(list(ovs[1:]), PATHS), context=runctx)
        finally:
            env.close()
        n += 1
        ctx = ref_merge([cfg or {}, runctx])
        for o in ovs:
            if o is not None:
                ctx = ref_merge([ctx, o])
        want = {"body": [ref_get(ctx, p, "DEF") for p in PATHS], "dflt": [ref_get(ctx, "a.b", "DEF"), ref_get(ctx, "a", "DEF")]}
        shapes.add(repr(ctx))
        case = {"overrides": list(ovs), "config_context": cfg, "run_context": runctx}
        if out[0] != "ok":
            viol.append((f"run-fails:{out[1] if len(out) > 1 else out[0]}", case, f"{case}: {out!r}"))
            continue
        got = out[1]
        if typed_key(got["dflt"]) != typed_key(want["dflt"]):
            viol.append(("default-arg-context", case, f"{case}: default-argument get_context gave {got['dflt']!r}, expected {want['dflt']!r} (context {ctx!r})"))
        bad = [(p, g, w) for p, g, w in zip(PATHS, got["body"], want["body"]) if typed_key(g) != typed_key(w)]
        if bad:
            p0 = bad[0]
            kind = "missing-or-nonmapping" if p0[2] == "DEF" else ("should-be-default" if p0[1] != "DEF" and p0[2] == "DEF" else "wrong-value")
            viol.append((f"get_context:{kind}", case, f"{case}: effective context {ctx!r}; (path, got, expected) {bad[:4]}"))
    return {"viol": viol[:40], "n": n, "shapes": shapes}


def reuse_leg(ctx):
    """One Scheduler object used for several executions: each root context is configured + THIS run's context only."""
    from engine import evloop

    REG = tasks()
    n = 0
    for cfg in CONFIG_CTX:
        for seq in itertools.permutations(RUN_CTX, 3):
            env = evloop.Env([], context=cfg)
            try:
                for i, runctx in enumerate(seq):
                    out = env.run(REG["lvl"]([], PATHS), reuse_scheduler=(i > 0), context=runctx)
                    n += 1
                    want_ctx = ref_merge([cfg or {}, runctx])
                    want = [ref_get(want_ctx, p, "DEF") for p in PATHS]
                    if out[0] != "ok" or out[1]["body"] != want:
                        ctx.violation("run-context-leaks-between-executions", {"config_context": cfg, "run_contexts": list(seq[: i + 1])},
                                      f"scheduler reused; config {cfg}, run contexts so far {seq[: i + 1]}: leaf sees "
                                      f"{out[1]['body'] if out[0] == 'ok' else out}, expected {want}")
                        break
            finally:
                env.close()
    return n


def siblings_leg(ctx):
    """Sibling calls of one task from one parent job, each with its own override: every sibling reads ITS effective context."""
    from engine import evloop
    from engine.progs import typed_key

    REG = tasks()
    n = 0
    ovs = OVERRIDES[: ctx.pick(8, len(OVERRIDES))]
    for cfg in CONFIG_CTX[:2]:
        for parent_o in (None, {"a": {"b": 4}}):
            for trio in itertools.product(ovs, repeat=ctx.pick(2, 3)):
                env = evloop.Env([], context=cfg)
                try:
                    t = REG["sib"] if parent_o is None else REG["sib"].update_context(parent_o)
                    out = env.run(t(list(trio)))
                finally:
                    env.close()
                n += 1
                base = ref_merge([cfg or {}, parent_o or {}])
                want = []
                for o in trio:
                    c = base if o is None else ref_merge([base, o])
                    want.append([ref_get(c, "a.b", "DEF"), ref_get(c, "a", "DEF")])
                if out[0] != "ok" or typed_key(out[1]) != typed_key(want):
                    k = next((i for i, (g, w) in enumerate(zip(out[1], want)) if typed_key(g) != typed_key(w)), 0) if out[0] == "ok" else 0
                    ctx.violation(f"sibling-contexts-mixed:sibling#{k}", {"config_context": cfg, "parent_override": parent_o, "sibling_overrides": list(trio)},
                                  f"config {cfg}, parent override {parent_o}, sibling overrides {list(trio)}: siblings read "
                                  f"{out[1] if out[0] == 'ok' else out}, expected {want}")
    return n


def run(ctx):
    from engine import seams
    from engine.common import check_harness_errors

    seams.template_db()
    ovs = OVERRIDES[: ctx.pick(8, len(OVERRIDES))]
    combos = [(o, c, r) for o in itertools.product(ovs, repeat=3) for c in CONFIG_CTX[: ctx.pick(2, 3)] for r in RUN_CTX[: ctx.pick(2, 3)]]
    combos = ctx.rotate(combos)
    chunks = [combos[i:i + 25] for i in range(0, len(combos), 25)]
    res = ctx.pmap(work, chunks, chunksize=1)
    check_harness_errors(res)
    ctx.add_results(res)
    shapes = set().union(*[r["shapes"] for r in res])
    n_reuse = reuse_leg(ctx)
    n_sib = siblings_leg(ctx)
    return {"coverage": {
        "evaluations": sum(r["n"] for r in res) + n_reuse + n_sib, "reused_scheduler_runs": n_reuse, "sibling_runs": n_sib, "distinct_nontrivial": len(shapes), "paths_per_run": len(PATHS), "exhaustive": True,
        "rule": f"every chain of 3 nested jobs with update_context overrides from {len(ovs)} dicts (nested, empty, list-valued, null- and zero-valued, absent) x configured "
        "context x run(context=) on the real scheduler; at the leaf every dotted path of <=3 segments over {a,b} plus missing / too-deep paths is "
        "read through get_context in the task body and through expression-valued default arguments; oracle: reference deep merge + path lookup; sibling leg: every pair (thorough: triple) of overrides given to sibling calls of one task from one parent job, each sibling reads its own effective context; "
        "distinct = distinct effective leaf contexts",
        "samples": [{"overrides": list(c[0]), "config": c[1], "run": c[2]} for c in combos[:2]],
    }, "assumptions": ["default completion schedule (context handling does not depend on timing)"]}
