"""C04 — cached results containing external values (File/Dir/FileSet and variants) are replayed only while still valid."""
from __future__ import annotations

import itertools
import os
import shutil

LEVEL = "model_checking"

KINDS = ["File", "ContentFile", "IFile", "FileSet", "ContentFileSet", "IFileSet", "Dir", "ContentDir", "IDir"]
OPS = ["delete", "truncate", "rewrite", "touch", "add-member", "remove-member", "rewrite-keep-stat", "symlink-loop", "touch-submilli", "none"]
NESTED_OPS = ["truncate-nested", "rewrite-nested", "touch-nested", "delete-nested"]  # Dir kinds only: a member inside a sub-directory
COUNT = {"make": 0}


def tasks():
    import redun.file as rf
    from redun import task

    def create(kind, path):
        C = getattr(rf, kind)
        if "File" in kind and "Set" not in kind:
            if os.path.islink(path):
                os.remove(path)  # a robust producer: whatever sits at the output path is replaced
            f = C(path)
            f.write(f"output-{kind}")
            return f
        os.makedirs(path, exist_ok=True)
        for m in ("a", "b") + (("sub/inner",) if "Dir" in kind else ()):
            os.makedirs(os.path.dirname(os.path.join(path, m)), exist_ok=True)
            C.classes.File(os.path.join(path, m)).write(f"member-{m}")
        return C(path) if "Dir" in kind else C(os.path.join(path, "*"))

    def make(kind, path):
        COUNT["make"] += 1
        return create(kind, path)

    def use(f=None):
        return f

    def main(kind, path, nested):
        if nested in ("lazy-kw", "lazy-pos", "lazy-nested"):
            # the producer is main itself: its cached result is a lazy call holding the external value (by keyword / by position)
            COUNT["make"] += 1
            v = create(kind, path)
            if nested == "lazy-nested":
                return REG["use"](REG["use"](v))  # the external value sits in a sub-expression of the cached lazy call
            return REG["use"](f=v) if nested == "lazy-kw" else REG["use"](v)
        v = REG["make"](kind, path)
        if nested == "list":
            return [v, 1]
        if nested == "dict":
            return {"k": [v]}
        return v

    REG = {}
    REG["make"] = task(name="make", namespace="c04")(make)
    REG["use"] = task(name="use", namespace="c04")(use)
    REG["main"] = task(name="main", namespace="c04")(main)
    return REG


def unwrap(v, nested):
    return v[0] if nested == "list" else (v["k"][0] if nested == "dict" else v)


def apply_op(kind, path, op, step):
    """External change. Returns False if not applicable in the current filesystem state."""
    single = "File" in kind and "Set" not in kind
    target = path if single else os.path.join(path, "a")
    t = 5000 + 10 * step
    if op == "none":
        return True
    if op.endswith("-nested"):
        if "Dir" not in kind:
            return False
        inner = os.path.join(path, "sub", "inner")
        if not os.path.exists(inner):
            return False
        if op == "truncate-nested":
            open(inner, "w").close()
        elif op == "rewrite-nested":
            with open(inner, "w") as f:
                f.write("external" + "y" * (step + 1))
        elif op == "touch-nested":
            os.utime(inner, (t, t))
        else:
            os.remove(inner)
        return True
    if op == "delete":
        if single:
            if not os.path.exists(path):
                return False
            os.remove(path)
        else:
            if not os.path.isdir(path):
                return False
            shutil.rmtree(path)
        return True
    if op == "symlink-loop":
        # the output is replaced by a symbolic link pointing at itself: it does not exist, but stat fails with ELOOP, not ENOENT
        if not single or os.path.islink(path):
            return False
        if os.path.exists(path):
            os.remove(path)
        os.symlink(os.path.basename(path), path)
        return True
    if op == "truncate":
        if not os.path.exists(target):
            return False
        open(target, "w").close()
        return True
    if op == "rewrite":
        if not single and not os.path.isdir(path):
            return False
        if os.path.islink(target):
            os.remove(target)
        with open(target, "w") as f:
            f.write("external" + "x" * (step + 1))
        return True
    if op == "rewrite-keep-stat":
        # other bytes, same length, modification time put back (rsync -t, cp -p, two writes within one timestamp tick): only the CONTENT changed
        if not os.path.exists(target):
            return False
        st = os.stat(target)
        data = open(target, "rb").read()
        if not data:
            return False
        with open(target, "wb") as f:
            f.write(bytes((b + 1 + step) % 256 for b in data))
        os.utime(target, ns=(st.st_atime_ns, st.st_mtime_ns))
        return True
    if op == "touch":
        if not os.path.exists(target):
            return False
        os.utime(target, (t, t))
        return True
    if op == "touch-submilli":
        # the modification time moves by 0.3 ms WITHIN the same millisecond (two writes in quick succession): still another file state
        if not os.path.exists(target):
            return False
        st = os.stat(target)
        ns = st.st_mtime_ns + (300_000 if st.st_mtime_ns % 1_000_000 < 500_000 else -300_000)
        os.utime(target, ns=(st.st_atime_ns, ns))
        return True
    if op == "add-member":
        if single or not os.path.isdir(path):
            return False
        with open(os.path.join(path, f"extra{step}"), "w") as f:
            f.write("m")
        return True
    if op == "remove-member":
        if single or not os.path.exists(os.path.join(path, "b")):
            return False
        os.remove(os.path.join(path, "b"))
        return True
    return False


def fingerprint(kind, path):
    """Reference notion of 'the external value changed', independent of redun's hashing code: the members with their size and
    modification time (content for the Content* classes), taken straight from the filesystem."""
    import glob

    single = "File" in kind and "Set" not in kind
    content = kind.startswith("Content")

    def one(p):
        if content:
            with open(p, "rb") as f:
                return f.read()
        st = os.stat(p)
        return (st.st_size, st.st_mtime_ns)

    if single:
        return ("missing",) if not os.path.exists(path) else ("file", one(path))
    if "Dir" in kind:
        if not os.path.isdir(path):
            return ("missing",)
        members = [os.path.join(r, f) for r, _d, fs in os.walk(path) for f in fs]
    else:
        members = [p for p in glob.glob(os.path.join(path, "*")) if os.path.isfile(p)]
    return ("set", tuple(sorted((os.path.relpath(m, path), one(m)) for m in members)))


def current_hash(kind, path):
    import redun.file as rf

    C = getattr(rf, kind)
    single = "File" in kind and "Set" not in kind
    return (C(path) if single or "Dir" in kind else C(os.path.join(path, "*"))).hash


def work(arg):
    from engine import common, evloop, seams

    kind, nested, first, L = arg
    REG = tasks()
    viol = []
    runs = 0
    hists = 0
    reexec = 0
    immutable = kind.startswith("I")
    root = os.path.join(common.scratch_dir(), f"c04-{kind}-{os.getpid()}")
    ops_here = OPS + (NESTED_OPS if "Dir" in kind else [])
    for rest in itertools.product(ops_here, repeat=L - 1):
        hist = (first,) + rest
        shutil.rmtree(root, ignore_errors=True)
        os.makedirs(root)
        path = os.path.join(root, "out")
        db = seams.fresh_db_path("c04")
        hists += 1

        def run(i):
            nonlocal runs
            env = evloop.Env([], db_path=db, id_salt=i)
            try:
                before = COUNT["make"]
                out = env.run(REG["main"](kind, path, nested))
                runs += 1
                return out, COUNT["make"] - before
            finally:
                env.close()

        out, n = run(0)
        if out[0] != "ok" or n != 1:
            viol.append((f"{kind}:first-run", {"kind": kind, "nested": nested, "history": []}, f"{kind}: first run {out!r} executed make {n} times"))
            seams.remove_db(db)
            continue
        recorded = unwrap(out[1], nested).hash
        recorded_fp = fingerprint(kind, path)
        for i, op in enumerate(hist):
            case = {"kind": kind, "nested": nested, "history": list(hist[: i + 1])}
            if not apply_op(kind, path, op, i):
                break
            try:
                cur = current_hash(kind, path)
            except Exception as e:  # noqa: BLE001
                viol.append((f"{kind}:hashing-raises:{op}", case, f"{kind} after {hist[: i + 1]}: {e!r}"))
                break
            fp = fingerprint(kind, path)
            must_rerun = (not immutable) and fp != recorded_fp  # safety side: decided by the harness's own view of the filesystem
            may_replay = immutable or cur == recorded           # re-running more often than the fingerprint demands is conservative, not a violation
            if must_rerun and cur == recorded:
                viol.append((f"{kind}:hash-misses-external-change:{op}", case,
                             f"{kind} after external {hist[: i + 1]}: members changed on disk (size/mtime/content fingerprint differs) but the value hash is still {cur[:8]}"))
                break
            out, n = run(i + 1)
            if out[0] != "ok":
                viol.append((f"{kind}:{nested}:run-raises-after:{op}", case, f"{kind}/{nested} after external {hist[: i + 1]}: run raised {out[1:]!r}"))
                break
            if must_rerun and n == 0:
                viol.append((f"{kind}:{nested}:stale-result-replayed-after:{op}", case,
                             f"{kind}/{nested} after external {hist[: i + 1]}: the files changed on disk (recorded hash {recorded[:8]}, current {cur[:8]}) but the producing task was not re-executed"))
                break
            if may_replay and not must_rerun and n > 0:
                viol.append((f"{kind}:{nested}:valid-result-not-replayed-after:{op}", case,
                             f"{kind}/{nested} after external {hist[: i + 1]}: value still valid (or immutable) but the task ran again"))
                break
            if n:
                reexec += 1
            val = unwrap(out[1], nested)
            if not immutable:
                fresh = current_hash(kind, path)
                if val.hash != fresh:
                    viol.append((f"{kind}:{nested}:returned-hash-not-current-after:{op}", case,
                                 f"{kind}/{nested} after {hist[: i + 1]}: returned value hash {val.hash[:8]} != hash of the current filesystem state {fresh[:8]}"))
                    break
            if n:
                single = "File" in kind and "Set" not in kind
                p = path if single else os.path.join(path, "a")
                data = open(p).read()
                if not (data.startswith("output-") or data.startswith("member-")):
                    viol.append((f"{kind}:{nested}:content-not-task-output-after:{op}", case, f"{kind} after {hist[: i + 1]}: file content {data!r}"))
            recorded = val.hash
            recorded_fp = fingerprint(kind, path)
        seams.remove_db(db)
    shutil.rmtree(root, ignore_errors=True)
    best = {}
    for sig, case, d in viol:
        if sig not in best or len(case["history"]) < len(best[sig][0]["history"]):
            best[sig] = (case, d)
    return {"viol": [(s, c, d) for s, (c, d) in best.items()], "runs": runs, "hists": hists, "reexec": reexec}


def run(ctx):
    from engine import seams
    from engine.common import check_harness_errors

    seams.template_db()
    L = ctx.pick(2, 3)
    nests = ctx.pick(["plain", "list", "lazy-kw", "lazy-nested"], ["plain", "list", "dict", "lazy-kw", "lazy-pos", "lazy-nested"])
    items = [(k, n, op, L) for k in KINDS for n in nests for op in OPS + (NESTED_OPS if "Dir" in k else []) if op != "none"]
    res = ctx.pmap(work, ctx.rotate(items), chunksize=1)
    check_harness_errors(res)
    ctx.add_results(res)
    runs = sum(r["runs"] for r in res)
    return {"coverage": {
        "states": sum(r["hists"] for r in res), "transitions": runs, "traces_validated_against_impl": runs,
        "re_executions_observed": sum(r["reexec"] for r in res), "exhaustive": True,
        "rule": f"for each of 9 file value classes, returned bare, nested in a list (thorough: dict), or held by keyword (thorough: also by position) in "
        "a lazy call that is the producer's cached result, every history of {L} external changes "
        "(delete, truncate, rewrite with new size, touch with new logical mtime, touch moving the mtime by 0.3 ms inside one millisecond, same-length rewrite with the mtime restored, replacement of a single file by a symbolic link to itself (absent, but stat fails with ELOOP), add member, remove member, the same on a member inside a "
        "sub-directory for Dir classes, nothing; delete followed by the re-run "
        "covers 'recreate'), each followed by a run of main -> make(path) on the shared backend; oracle: the run never raises, make re-executes "
        "iff the class is not immutable and the filesystem fingerprint (members with size+mtime, or content; computed by the harness, not by "
        "redun's hashing) differs from the one at recording time; the value hash changes iff the fingerprint does; the returned value's hash is the current hash, "
        "re-executed output is the task's output",
        "samples": [{"kind": i[0], "nested": i[1], "first_op": i[2]} for i in items[:3]],
    }, "assumptions": ["local filesystem; default completion schedule"]}
