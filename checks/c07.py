"""C07 — result and recorded call graph are independent of completion order and of waiting for limits."""
LEVEL = "model_checking"


def cross(ctx, by_case):
    from checks import sched_common

    groups = {}
    for k, a in by_case.items():
        groups.setdefault((a["case"]["driver"], a["case"]["runs"], a["case"].get("cache", True)), []).append(a)
    for (driver, runs, _cache), lst in groups.items():
        outs = set()
        cgs = {}
        for a in lst:
            outs |= set(a["outcomes"])
            for h, choices in a["cgs"].items():
                cgs.setdefault(h, (a["case"], choices, a["cg_detail"].get(h)))
        if len(outs) > 1:
            ctx.violation(f"result-depends-on-schedule:{driver}", {"driver": driver, "runs": runs},
                          f"{len(outs)} distinct outcomes across schedules/limits: {sorted(outs)[:3]}")
        if len(cgs) > 1:
            items = list(cgs.values())
            d = ""
            where = "?"
            if items[0][2] and items[1][2]:
                d = sched_common.diff_callgraphs(items[0][2], items[1][2])
                where = sched_common.diff_tasks(items[0][2], items[1][2])
            ctx.violation(f"callgraph-depends-on-schedule:{driver}:differs-at={where}",
                          {"driver": driver, "runs": runs, "A": {"case": items[0][0], "choices": items[0][1]},
                           "B": {"case": items[1][0], "choices": items[1][1]}},
                          f"{len(cgs)} distinct recorded call graphs across schedules/limits; A={items[0][0]['limits']} "
                          f"{items[0][1]} B={items[1][0]['limits']} {items[1][1]}: {d}")


def run(ctx):
    from checks import sched_common

    # failing twins are the known failing-twin finding; the driver with a waiter behind them belongs to C06/C08/C09
    cov = sched_common.run_property(ctx, "C07", extra_cross_check=cross, case_filter=lambda c: c["driver"] != "waiter-behind-failing-duplicates")
    cov["rule"] = ("sharp drivers (incl. handle-passing) x every limits configuration from serial to unlimited x all completion "
                   "interleavings; oracle: across ALL explored (schedule, limits) pairs of one program the outcome is identical and, for "
                   "successful executions, the normalized call graph (call nodes, child edges, arguments incl. handle hashes) is identical")
    return {"coverage": cov, "assumptions": ["job ids, timestamps, cached flags are projected away",
                                             "failing executions are compared on the error only"]}
