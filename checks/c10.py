"""C10 — executor monitor threads never lose a submitted job: preemption-bounded exploration of a scheduler thread submitting
jobs against the executor's real monitor thread, with the container / cloud layer replaced by an in-process fake that
completes every job it is asked about."""
from __future__ import annotations

import os
import types
from collections import Counter

LEVEL = "model_checking"


class FakeTask:
    script = False
    fullname = "ns.task"
    name = "task"
    namespace = "ns"
    hash = "taskhash"
    load_module = "ns"

    def get_task_option(self, k, default=None):
        return default


class FakeJob:
    def __init__(self, i):
        self.id = f"job{i}"
        self.task = FakeTask()
        self.args = ((i,), {})
        self.eval_hash = f"eval{i}"
        self.execution = None

    def get_options(self):
        return {}

    def get_option(self, k, default=None):
        return default

    def __repr__(self):
        return self.id


class FakeScheduler:
    def __init__(self, root):
        self.reported = []
        self.errors = []
        self.config = types.SimpleNamespace(configdir=root)
        self.logger = types.SimpleNamespace(level=100)

    def done_job(self, job, result, job_tags=()):
        self.reported.append(("done", job.id))

    def reject_job(self, job, error, error_traceback=None, job_tags=()):
        if job is None:
            self.errors.append(error)
        else:
            self.reported.append(("failed", job.id))

    def log(self, *a, **k):
        pass

    def add_job_tags(self, job, tags):
        pass


# ------------------------------------------------------------------------------------------------ docker
def docker_harness(root):
    import redun.executors.docker as mod
    from redun.config import Config

    conf = Config({"e": {"image": "img", "scratch": os.path.join(root, "scratch"), "job_monitor_interval": "1", "code_package": "False"}})["e"]
    counter = [0]

    def submit_task(image, scratch, job, task, args=(), kwargs={}, job_options={}, code_file=None):
        counter[0] += 1
        return {"jobId": f"container{counter[0]}"}

    def iter_job_status(scratch, pending):
        for cid, job in list(pending.items()):
            yield {"jobId": cid, "status": mod.SUCCEEDED, "logs": ""}

    patches = [(mod, "submit_task", submit_task), (mod, "iter_job_status", iter_job_status), (mod, "parse_job_result", lambda scratch, job: (1, True)),
               (mod, "package_code", lambda *a, **k: None)]
    ex_cls = mod.DockerExecutor
    funcs = [ex_cls._start, ex_cls.stop, ex_cls._monitor, ex_cls._process_job_status, ex_cls._submit]
    return {"mod": mod, "cls": "DockerExecutor", "conf": conf, "patches": patches, "funcs": funcs, "thread": lambda ex: ex._thread, "shim_modules": [mod],
            "pending": lambda ex: len(ex._pending_jobs), "running": lambda ex: ex._is_running}


# ------------------------------------------------------------------------------------------------ aws batch
def batch_harness(root, arrayer=False):
    """AWSBatchExecutor against the in-process fake of the Batch API (checks/c32.FakeBatch); every submitted Batch job is reported SUCCEEDED
    as soon as it is described. `arrayer=True` keeps the job arrayer (and its own monitor thread) in the loop."""
    import redun.executors.aws_batch as mod
    import redun.job_array as ja
    from redun.config import Config
    from redun.executors import aws_utils

    from checks.c32 import FakeBatch

    conf = Config({"e": {"image": "img", "queue": "q1", "s3_scratch": os.path.join(root, "scratch"), "job_monitor_interval": "1", "code_package": "False",
                         "min_array_size": "2" if arrayer else "0", "job_stale_time": "1.5", "aws_region": "us-west-2",
                         "debug_scratch": os.path.join(root, "debug")}})["e"]
    fb = FakeBatch()
    orig_describe = fb.describe

    def describe(jid):
        d = orig_describe(jid)
        if d["status"] in ("RUNNABLE", "PENDING", "RUNNING"):
            for c in fb.jobs[jid].get("children") or [jid]:
                fb.jobs[c]["status"] = "SUCCEEDED"
            d = orig_describe(jid)
        return d

    fb.describe = describe
    patches = [(aws_utils, "get_aws_client", lambda service, aws_region=None: fb), (aws_utils, "get_aws_user", lambda *a, **k: "user"),
               (mod, "get_or_create_job_definition", lambda *a, **k: {"jobDefinitionArn": "arn:jd"}), (mod, "parse_job_logs", lambda *a, **k: iter(())),
               (mod, "parse_job_result", lambda scratch, job: (1, True)),
               (mod, "submit_task", lambda image, queue, scratch, job, task, **kw: fb.submit_job(
                   f"redun-job-{job.eval_hash}", queue, "arn", containerOverrides={"command": None},
                   arrayProperties=({"size": kw["array_size"]} if kw.get("array_size") else None))),
               (mod, "write_array_job_scratch_files", lambda *a, **k: None)]
    ex_cls = mod.AWSBatchExecutor
    funcs = [ex_cls._start, ex_cls.stop, ex_cls._monitor, ex_cls._process_job_status, ex_cls._submit, ex_cls._submit_single_job, ex_cls._submit_jobs]
    shim_modules = [mod]
    if arrayer:
        funcs += [ja.JobArrayer.add_job, ja.JobArrayer.start, ja.JobArrayer.stop, ja.JobArrayer._monitor_stale_jobs, ex_cls._submit_array_job]
        shim_modules.append(ja)
    return {"mod": mod, "cls": "AWSBatchExecutor", "conf": conf, "patches": patches, "funcs": funcs, "thread": lambda ex: ex._thread,
            "shim_modules": shim_modules, "pending": lambda ex: len(ex.pending_batch_jobs) + ex.arrayer.num_pending, "running": lambda ex: ex.is_running}


# ------------------------------------------------------------------------------------------------ aws glue
def glue_harness(root):
    """AWSGlueExecutor: a monitor thread plus a submission thread; Glue API faked (every started run is reported SUCCEEDED when described)."""
    import redun.executors.aws_glue as mod
    from redun.config import Config
    from redun.file import File

    conf = Config({"e": {"s3_scratch": os.path.join(root, "scratch"), "role": "arn:role", "job_monitor_interval": "1", "job_retry_interval": "1",
                         "code_package": "False", "aws_region": "us-west-2"}})["e"]
    runs = {}
    counter = [0]

    def submit_glue_job(job, a_task, **kw):
        counter[0] += 1
        rid = f"run{counter[0]}"
        runs[rid] = job
        return {"JobRunId": rid, "ResponseMetadata": {"RetryAttempts": 0}}

    def glue_describe_jobs(job_ids, glue_job_name=None, aws_region=None):
        for rid in job_ids:
            yield {"Id": rid, "JobRunState": "SUCCEEDED", "LogGroupName": "lg"}

    class Exc:
        class ConcurrentRunsExceededException(Exception):
            pass

        class ResourceNumberLimitExceededException(Exception):
            pass

    fake_client = types.SimpleNamespace(exceptions=Exc)

    def get_or_create_job_definition(self):
        self.glue_job_name = "REDUN-job"
        self.redun_zip_location = "zip"
        self.code_file = File(os.path.join(root, "code.zip"))

    from redun.executors import aws_utils

    patches = [(mod, "submit_glue_job", submit_glue_job), (mod, "glue_describe_jobs", glue_describe_jobs), (mod, "parse_job_result", lambda scratch, job: (1, True)),
               (aws_utils, "get_aws_client", lambda service, aws_region=None: fake_client),
               (mod.AWSGlueExecutor, "get_or_create_job_definition", get_or_create_job_definition),
               (mod.AWSGlueExecutor, "gather_inflight_jobs", lambda self: None)]
    ex_cls = mod.AWSGlueExecutor
    funcs = [ex_cls._start, ex_cls.stop, ex_cls._monitor, ex_cls._submission_thread, ex_cls._process_job_status, ex_cls.submit, ex_cls.submit_pending_job]
    return {"mod": mod, "cls": "AWSGlueExecutor", "conf": conf, "patches": patches, "funcs": funcs, "thread": lambda ex: ex._monitor_thread,
            "shim_modules": [mod], "pending": lambda ex: len(ex.pending_glue_jobs) + len(ex.running_glue_jobs), "running": lambda ex: ex.is_running,
            "all_threads": lambda ex: [ex._monitor_thread, ex._submit_thread]}


# ------------------------------------------------------------------------------------------------ k8s
def k8s_harness(root):
    """K8SExecutor without job arrays: Kubernetes API faked (every job is reported succeeded when described)."""
    import redun.executors.k8s as mod
    from redun.config import Config
    from redun.executors import k8s_utils

    conf = Config({"e": {"image": "img", "scratch": os.path.join(root, "scratch"), "job_monitor_interval": "1", "code_package": "False",
                         "min_array_size": "0", "max_array_size": "0", "create_namespace": "False", "import_aws_secrets": "False", "type": "k8s"}})["e"]
    created = {}

    def v1job(name):
        ns = types.SimpleNamespace
        return ns(metadata=ns(name=name, uid="uid-" + name, labels={}), spec=ns(parallelism=1),
                  status=ns(succeeded=1, failed=None, conditions=None, completed_indexes=None))

    def submit_task(client, image, namespace, scratch, job, task, **kw):
        name = f"redun-job-{job.eval_hash}"
        created[name] = job
        return v1job(name)

    def k8s_describe_jobs(client, names, namespace):
        return [v1job(n) for n in names if n in created]

    class FakeClient:
        core = None

        def version(self):
            return (1, 25)

    patches = [(mod, "submit_task", submit_task), (mod, "k8s_describe_jobs", k8s_describe_jobs), (mod, "get_k8s_job_pods", lambda core, name: iter(())),
               (mod, "parse_job_result", lambda scratch, job: (1, True)), (k8s_utils, "K8SClient", FakeClient), (k8s_utils, "delete_job", lambda *a, **k: None),
               (mod.K8SExecutor, "_setup_secrets", lambda self: None), (mod.K8SExecutor, "gather_inflight_jobs", lambda self: None)]
    ex_cls = mod.K8SExecutor
    funcs = [ex_cls._start, ex_cls.stop, ex_cls._monitor, ex_cls._process_k8s_job_status, ex_cls._submit, ex_cls._submit_single_job, ex_cls._submit_jobs]
    return {"mod": mod, "cls": "K8SExecutor", "conf": conf, "patches": patches, "funcs": funcs, "thread": lambda ex: getattr(ex, "_thread", None), "shim_modules": [mod],
            "pending": lambda ex: len(ex.pending_k8s_jobs) + ex.arrayer.num_pending, "running": lambda ex: ex.is_running}


# ------------------------------------------------------------------------------------------------ gcp batch
def gcp_harness(root):
    """GCPBatchExecutor without job arrays: GCP Batch API faked (every task is reported SUCCEEDED when looked up)."""
    import redun.executors.gcp_batch as mod
    from redun.config import Config
    from redun.executors import gcp_utils

    conf = Config({"e": {"image": "img", "project": "p", "region": "r", "gcs_scratch": os.path.join(root, "scratch"), "job_monitor_interval": "1",
                         "code_package": "False", "min_array_size": "0", "debug_scratch": os.path.join(root, "debug")}})["e"]
    ns = types.SimpleNamespace
    counter = [0]

    def batch_submit(client=None, job_name=None, **kw):
        counter[0] += 1
        return ns(name=f"jobs/{job_name}", uid=f"uid{counter[0]}", task_groups=[ns(name=f"jobs/{job_name}/taskGroups/group0")])

    def get_task(client=None, task_name=None):
        return ns(name=task_name, status=ns(state=mod.TaskStatus.State.SUCCEEDED))

    patches = [(gcp_utils, "get_gcp_batch_client", lambda *a, **k: object()), (gcp_utils, "get_gcp_compute_client", lambda *a, **k: object()),
               (gcp_utils, "batch_submit", batch_submit), (gcp_utils, "get_task", get_task),
               (gcp_utils, "get_compute_machine_type", lambda *a, **k: ns(memory_mb=16384, guest_cpus=4)), (mod, "parse_job_result", lambda scratch, job: (1, True)),
               (mod, "get_oneshot_command", lambda *a, **k: ["true"]), (mod.GCPBatchExecutor, "gather_inflight_jobs", lambda self: None)]
    ex_cls = mod.GCPBatchExecutor
    funcs = [ex_cls._start, ex_cls.stop, ex_cls._monitor, ex_cls._process_task_status, ex_cls._submit, ex_cls._submit_single_job, ex_cls._submit_jobs]
    return {"mod": mod, "cls": "GCPBatchExecutor", "conf": conf, "patches": patches, "funcs": funcs, "thread": lambda ex: ex._thread, "shim_modules": [mod],
            "pending": lambda ex: len(ex.pending_batch_tasks) + ex.arrayer.num_pending, "running": lambda ex: ex.is_running}


def k8s_status_leg(ctx):
    """Sequential leg (no threads): every terminal status shape of a Kubernetes Job the monitor can be handed - a singleton job
    (succeeded / failed, pod listed or gone) and an Indexed array job of 3 elements where each index is independently
    completed / not completed with its pod still listed / not completed with no pod left, under a Complete or Failed condition -
    is processed by the real K8SExecutor._process_k8s_job_status: every redun job of that Kubernetes Job is reported exactly once."""
    import itertools
    import shutil

    from engine import common

    root = os.path.join(common.scratch_dir(), f"c10-k8s-status-{os.getpid()}")
    shutil.rmtree(root, ignore_errors=True)
    os.makedirs(root)
    H = k8s_harness(root)
    mod = H["mod"]
    ns = types.SimpleNamespace
    pods_now: list = []

    def parse_job_error(scratch, job):
        from redun.scheduler import Traceback

        e = RuntimeError("failed on k8s")
        return e, Traceback.from_error(e)

    extra = [(mod, "get_k8s_job_pods", lambda core, name: iter(list(pods_now))), (mod, "parse_pod_logs", lambda *a, **k: ["log\n"]),
             (mod, "parse_job_error", parse_job_error)]
    todo = list(H["patches"]) + extra
    saved = [(m, k, getattr(m, k)) for m, k, _v in todo]
    for m, k, v in todo:
        setattr(m, k, v)
    n = 0
    try:
        fs = FakeScheduler(root)
        ex = mod.K8SExecutor("e", scheduler=fs, config=H["conf"])
        ex.set_scheduler(fs)

        def pod(name, index=None):
            return ns(metadata=ns(name=f"{name}-pod{index}", namespace="default", creation_timestamp=None,
                                  annotations={} if index is None else {"batch.kubernetes.io/job-completion-index": str(index)}))

        def cond(kind):
            return [ns(type=kind, status="True", reason="BackoffLimitExceeded" if kind == "Failed" else None, message="m")]

        shapes = []
        for kind, has_pod in itertools.product(("Complete", "Failed"), (True, False)):
            shapes.append(("singleton", kind, (has_pod,)))
        for kind in ("Complete", "Failed"):
            for per_index in itertools.product(("completed", "pod", "nopod"), repeat=3):
                if kind == "Complete" and any(x != "completed" for x in per_index) and not ctx.pick(False, True):
                    continue  # quick: a Complete array with uncompleted indexes only in the thorough tier
                shapes.append(("array", kind, per_index))
        for what, kind, detail in shapes:
            fs.reported.clear()
            fs.errors.clear()
            ex.pending_k8s_jobs.clear()
            name = f"redun-job-{what}"
            if what == "singleton":
                jobs = [FakeJob(0)]
                ex.pending_k8s_jobs[name] = jobs[0]
                pods_now[:] = [pod(name)] if detail[0] else []
                v1 = ns(metadata=ns(name=name, uid="uid", labels={}), spec=ns(parallelism=1, completions=1, completion_mode=None),
                        status=ns(succeeded=1 if kind == "Complete" else None, failed=None if kind == "Complete" else 1, conditions=cond(kind), completed_indexes=None))
            else:
                jobs = [FakeJob(i) for i in range(3)]
                ex.pending_k8s_jobs[name] = {i: j for i, j in enumerate(jobs)}
                pods_now[:] = [pod(name, i) for i, x in enumerate(detail) if x != "nopod"]
                done = [str(i) for i, x in enumerate(detail) if x == "completed"]
                v1 = ns(metadata=ns(name=name, uid="uid", labels={}), spec=ns(parallelism=3, completions=3, completion_mode="Indexed"),
                        status=ns(succeeded=len(done), failed=3 - len(done), conditions=cond(kind), completed_indexes=",".join(done) or None))
            case = {"leg": "k8s-status", "kind": what, "condition": kind, "per_index": list(detail)}
            n += 1
            try:
                ex._process_k8s_job_status(v1)
            except Exception as e:  # noqa: BLE001
                ctx.violation(f"k8s-status:{what}:processing-raises:{type(e).__name__}", case, f"{case}: {e!r}")
                continue
            from collections import Counter

            cnt = Counter(jid for _st, jid in fs.reported)
            lost = [j.id for j in jobs if cnt[j.id] == 0]
            twice = [j.id for j in jobs if cnt[j.id] > 1]
            if lost or twice:
                why = "+".join(sorted({detail[int(j[3:])] if what == "array" else ("pod" if detail[0] else "nopod") for j in lost + twice}))
                ctx.violation(f"k8s-status:{what}:{'job-never-reported' if lost else 'job-reported-twice'}:condition={kind}:{why}", case,
                              f"{case}: after processing the terminal Kubernetes Job, reports {fs.reported}; never reported {lost}, reported twice {twice}; "
                              f"still pending {dict(ex.pending_k8s_jobs)}")
            elif name in ex.pending_k8s_jobs:
                ctx.violation(f"k8s-status:{what}:left-pending:condition={kind}", case, f"{case}: all jobs reported but {name} is still in pending_k8s_jobs")
    finally:
        for m, k, v in saved:
            setattr(m, k, v)
        shutil.rmtree(root, ignore_errors=True)
    return n


HARNESSES = {"docker": docker_harness, "gcp_batch": gcp_harness, "k8s": k8s_harness, "aws_glue": glue_harness, "aws_batch": batch_harness, "aws_batch+arrayer": lambda root: batch_harness(root, arrayer=True)}


def scenario(case, prefix):
    import shutil

    from engine import common
    from engine import threads as th

    root = os.path.join(common.scratch_dir(), f"c10-{os.getpid()}")
    shutil.rmtree(root, ignore_errors=True)
    os.makedirs(root)
    H = HARNESSES[case["executor"]](root)
    mod, conf, funcs, get_thread = H["mod"], H["conf"], H["funcs"], H["thread"]
    shim_threading, shim_time = th.make_shims()
    todo = list(H["patches"]) + [(m, "threading", shim_threading) for m in H["shim_modules"]] + [(m, "time", shim_time) for m in H["shim_modules"]]
    saved = [(m, k, getattr(m, k)) for m, k, _v in todo]
    for m, k, v in todo:
        setattr(m, k, v)
    s = th.Sched(prefix, horizon=8000)
    s.active = th.instrument(*funcs)
    fs = FakeScheduler(root)
    jobs = [FakeJob(i) for i in range(case["jobs"])]
    res = {}
    start_log: list = []

    def main():
        ex = getattr(mod, H["cls"])("e", scheduler=fs, config=conf)
        ex.set_scheduler(fs)
        s.state_fn = lambda: (H["pending"](ex), H["running"](ex), len(fs.reported))
        orig_start = ex._start

        def logged_start():
            # what the submitting thread sees when it decides whether a monitor has to be started (distinguishes the windows in which a job can be lost)
            t = get_thread(ex)
            start_log.append((bool(H["running"](ex)), bool(t is not None and t.is_alive())))
            return orig_start()

        ex._start = logged_start
        for j in jobs:
            ex.submit(j)
            for _ in range(case.get("pause", 1)):
                th.csleep(0.1)  # the scheduler thread goes back to its event loop between submissions (for `pause` turns of the other threads)

        def quiet():
            ts = H["all_threads"](ex) if "all_threads" in H else [get_thread(ex)]
            return len(fs.reported) >= len(jobs) or all(t is None or not t.is_alive() for t in ts)

        s.block_until(quiet, ("main-wait",))
        res["alive"] = bool(get_thread(ex) and get_thread(ex).is_alive())
        ex.stop()

    try:
        failure = s.run(main)
    finally:
        for m, k, v in saved:
            setattr(m, k, v)
    if failure and failure[0] in ("divergence", "stuck"):
        raise th.ReplayDivergence(str(failure))
    viol = []
    name = case["executor"]
    if failure:
        viol.append((f"{name}:{failure[0]}", str(failure)))
    for e in fs.errors:
        viol.append((f"{name}:monitor-error:{type(e).__name__}", repr(e)))
    cnt = Counter(j for _, j in fs.reported)
    lost = [j.id for j in jobs if cnt[j.id] == 0]
    dup = [j for j, n in cnt.items() if n > 1]
    if not failure and lost:
        k = int(lost[0][3:])
        flag, alive = start_log[k] if k < len(start_log) else (None, None)
        window = f"flag={'set' if flag else 'cleared'}:monitor={'alive' if alive else 'dead'}"
        viol.append((f"{name}:job-never-reported:{window}", f"(when {lost[0]} was submitted the running flag was {'set' if flag else 'cleared'} and the monitor thread {'alive' if alive else 'dead'}) jobs {lost} were submitted but the monitor thread ended without reporting them (reported: {fs.reported})"))
    if dup:
        viol.append((f"{name}:job-reported-twice", f"{dup}"))
    s.obs = [("reported", sorted(fs.reported)), ("fail", str(failure))]
    return s, {"viol": viol, "outcome": repr(s.obs)}


def explore_case(arg):
    from engine import evloop

    case, bound, cap, start = arg
    if start == "roots":
        ctl, _ = scenario(case, [])
        return {"prefixes": [[0] * i + [alt] for i, (n, _c) in enumerate(ctl.points) for alt in range(1, n)]}
    viol = []
    outcomes = Counter()

    def on_exec(choices, res):
        outcomes[res["outcome"]] += 1
        for sig, d in res["viol"]:
            viol.append((sig, {"case": case, "choices": choices}, f"{case} schedule with {sum(1 for c in choices if c)} preemptions: {d}"))

    st = evloop.explore(lambda p: scenario(case, p), bound, cap, on_exec, start_prefix=start, selfcheck=(start == []))
    best = {}
    for sig, c, d in viol:
        k = sum(1 for x in c["choices"] if x)
        if sig not in best or k < best[sig][0]:
            best[sig] = (k, c, d)
    return {"viol": [(s_, c, d) for s_, (_, c, d) in best.items()], "stats": st.as_dict(), "states": st.states, "ntrans": len(st.transitions),
            "outcomes": set(outcomes), "case": case}


def run(ctx):
    from engine.common import check_harness_errors

    bound = ctx.pick(2, 3)
    cap = 10**7
    if ctx.quick:
        cases = [({"executor": "docker", "jobs": 2, "pause": 1}, 2), ({"executor": "aws_batch", "jobs": 2, "pause": 3}, 1),
                 ({"executor": "aws_glue", "jobs": 2, "pause": 3}, 1), ({"executor": "k8s", "jobs": 2, "pause": 2}, 1), ({"executor": "gcp_batch", "jobs": 2, "pause": 2}, 1),
                 ({"executor": "aws_batch", "jobs": 2, "pause": 1}, 1), ({"executor": "aws_batch+arrayer", "jobs": 2, "pause": 3}, 1)]
    else:
        # sized from measured executions: docker at bound 3 is ~250k executions, every other case 10k-60k
        cases = [({"executor": "docker", "jobs": 2, "pause": 1}, 3), ({"executor": "docker", "jobs": 3, "pause": 1}, 2), ({"executor": "docker", "jobs": 2, "pause": 2}, 2),
                 ({"executor": "aws_batch", "jobs": 2, "pause": 3}, 2), ({"executor": "aws_batch", "jobs": 2, "pause": 1}, 2),
                 ({"executor": "aws_batch+arrayer", "jobs": 2, "pause": 3}, 1), ({"executor": "aws_batch+arrayer", "jobs": 2, "pause": 1}, 1),
                 ({"executor": "aws_glue", "jobs": 2, "pause": 3}, 2), ({"executor": "k8s", "jobs": 2, "pause": 2}, 2), ({"executor": "k8s", "jobs": 2, "pause": 1}, 2),
                 ({"executor": "gcp_batch", "jobs": 2, "pause": 2}, 2), ({"executor": "gcp_batch", "jobs": 2, "pause": 1}, 2)]
    case_bounds = list(cases)
    roots = ctx.pmap(explore_case, [(c, b, cap, "roots") for c, b in cases], chunksize=1)
    check_harness_errors(roots)
    work = []
    for (c, b), r in zip(cases, roots):
        work.append((c, 0, cap, []))
        work += [(c, b, cap, pre) for pre in r["prefixes"]]
    cases = [c for c, _b in cases]
    res = ctx.pmap(explore_case, ctx.rotate(work), chunksize=2)
    check_harness_errors(res)
    ctx.add_results(res)
    n_k8s_shapes = k8s_status_leg(ctx)
    states = set()
    outcomes = set()
    for r in res:
        states |= {(repr(r["case"]), s) for s in r["states"]}
        outcomes |= r["outcomes"]
    execs = sum(r["stats"]["executions"] for r in res)
    return {"coverage": {
        "states": len(states), "transitions": sum(r["ntrans"] for r in res), "traces_validated_against_impl": execs,
        "preemption_bound": bound, "preemption_bound_per_case": [[c["executor"], c["jobs"], c["pause"], b] for c, b in case_bounds], "executors": sorted(HARNESSES), "distinct_outcomes": len(outcomes),
        "max_scheduling_points": max(r["stats"]["max_points"] for r in res), "k8s_terminal_status_shapes": n_k8s_shapes, "exhaustive": True,
        "rule": "for each executor harness (Docker; AWS Batch with and without the job arrayer's own thread) a scheduler thread submits 2 (thorough: also 3) "
        "jobs, going back to its loop for `pause` turns in between, while the executor's real _start/_monitor/stop/_submit code runs in real monitor "
        "threads; every schedule within the per-case preemption bound (see preemption_bound_per_case) at instruction-level points; the "
        "container / Batch layer is a fake that reports every job it is asked about as succeeded; oracle: when the monitor thread has ended, every "
        "submitted job was reported exactly once, no monitor error, no deadlock. Sequential leg: every terminal status shape of a Kubernetes Job "
        "(singleton succeeded/failed with or without a listed pod; Indexed array of 3 where each index is completed / uncompleted with pod / uncompleted "
        "without pod, under a Complete (thorough) or Failed condition) handed to the real K8SExecutor._process_k8s_job_status: every redun job reported exactly once",
        "samples": cases[:2],
    }, "assumptions": ["GIL bytecode interleaving; cloud/container APIs are in-process fakes; only executors listed in 'executors' are harnessed"]}


def replay(ctx, case):
    if case.get("leg") == "k8s-status":
        found = []

        class _C:
            def pick(self, a, b):
                return b

            def violation(self, sig, c, d):
                if c == case:
                    found.append((sig, d))

        k8s_status_leg(_C())
        return found
    _, res = scenario(case["case"], case["choices"])
    return [(s, d) for s, d in res["viol"]]
