"""C34 — format_tag_value never fails and parse_tag_value(format_tag_value(v)) == v (type-exact).

Bounded-exhaustive enumeration: every string over a syntax-probing alphabet up to a length bound, plus
JSON literals, plus every JSON value of depth <= 2 over a leaf set.
"""
from __future__ import annotations

import itertools
import math

LEVEL = "exploration"

ALPHA = ["[", "{", '"', "1", "-", ".", "e", "_", "t", "n", " ", ",", "a", "]", "\\", "=", "+", "0", "x", "'"]
WORDS = ["true", "false", "null", "True", "None", "nan", "NaN", "inf", "-inf", "Infinity", "1e5", "0x10", "1_0", "١",
         "[]", "{}", '""', '"a"', "[1]", '{"a": 1}', '"a', 'a"', "[a", "{a", "1.0", "-0", "+1", " 1", "1 ", "\t1", "\n",
         "a\nb", "é", "a=b", "=", "1,2", "٣.٥", "１"]
LEAVES = [None, True, False, 0, 1, -1, 10**20, 1.0, -0.5, 1e22, 1e-7, float("inf"), "", "a", "1", "true", "[", '"', "a b"]
# integers around every power of two / ten boundary a float-based parser would round (2**53 +- 1, 2**63 - 1, 2**64, 10**400 ...), both signs
BIG_INTS = sorted({sgn * (b ** e + d) for b, es in ((2, (24, 31, 32, 52, 53, 54, 63, 64, 100, 1024)), (10, (15, 16, 17, 18, 19, 22, 23, 308, 309, 400))) for e in es
                   for d in (-1, 0, 1) for sgn in (1, -1)} | {1695368699123456789})


def typed_eq(a, b) -> bool:
    if type(a) is not type(b):
        return False
    if isinstance(a, float):
        return a == b or (math.isnan(a) and math.isnan(b))
    if isinstance(a, list):
        return len(a) == len(b) and all(typed_eq(x, y) for x, y in zip(a, b))
    if isinstance(a, dict):
        return a.keys() == b.keys() and all(typed_eq(a[k], b[k]) for k in a)
    return a == b


def sig_of(v, kind: str) -> str:
    """Structural signature for the findings file: value class + first character class."""
    if isinstance(v, str):
        first = v[:1]
        cls = first if first in '[{"' else ("ws" if first.isspace() else ("num" if first.isdigit() or first in "+-." else "other"))
        quoted = len(v) >= 2 and v[0] == '"' and v[-1] == '"'
        return f"{kind}:str:first={cls}:quoted={quoted}"
    return f"{kind}:{type(v).__name__}"


def enum_values(tier: str):
    n = 3 if tier == "quick" else 4
    alpha = ALPHA[:14] if tier == "quick" else ALPHA
    strs = [""]
    for k in range(1, n + 1):
        if k == 4:
            alpha = ALPHA[:12]
        strs += ["".join(c) for c in itertools.product(alpha, repeat=k)]
    strs += WORDS
    vals = list(strs)
    vals += LEAVES
    vals += BIG_INTS
    vals += [str(i) for i in BIG_INTS[:: 7]]  # the same digits as STRINGS must stay strings
    # depth 1 and 2 JSON containers
    d1 = []
    for k in range(0, 3):
        for combo in itertools.product(LEAVES, repeat=k):
            d1.append(list(combo))
    for keys in ([], ["a"], ["b", "a"], ["", "1"]):
        for combo in itertools.product(LEAVES, repeat=len(keys)):
            d1.append(dict(zip(keys, combo)))
    vals += d1
    sub = d1[:: max(1, len(d1) // 40)]
    for x in sub:
        vals.append([x])
        vals.append({"k": x})
        for y in sub[:6]:
            vals.append([x, y])
    return vals


def check_one(v):
    from redun.tags import format_tag_value, parse_tag_value

    try:
        s = format_tag_value(v)
    except Exception as exc:
        return (sig_of(v, "format-raises"), f"format_tag_value({v!r}) raised {exc!r}")
    if not isinstance(s, str):
        return (sig_of(v, "format-nonstr"), f"format_tag_value({v!r}) = {s!r}")
    try:
        back = parse_tag_value(s)
    except Exception as exc:
        return (sig_of(v, "parse-raises"), f"parse_tag_value({s!r}) raised {exc!r} (from {v!r})")
    if not typed_eq(back, v):
        return (sig_of(v, "roundtrip"), f"{v!r} -> {s!r} -> {back!r}")
    return None


def run(ctx):
    vals = ctx.rotate(enum_values(ctx.tier))
    outs = set()
    nontriv = 0
    for v in vals:
        r = check_one(v)
        if r:
            ctx.violation(r[0], v, r[1])
        from redun.tags import format_tag_value

        try:
            s = format_tag_value(v)
            outs.add(s)
            if not (isinstance(v, str) and s == v):
                nontriv += 1
        except Exception:
            pass
    return {
        "coverage": {
            "evaluations": len(vals),
            "distinct_nontrivial": nontriv,
            "rule": "all strings of length <=3 (quick) / <=4 (thorough) over the alphabet "
            + repr("".join(ALPHA))
            + " plus JSON-literal and number look-alikes, plus all JSON lists/dicts of depth <=2 over 19 leaves; "
            "non-trivial = the displayed text differs from the raw value (quoting or JSON encoding was needed)",
            "distinct_outputs": len(outs),
            "exhaustive": True,
            "samples": [repr(vals[i]) for i in (1, len(vals) // 2, len(vals) - 1)],
        },
        "assumptions": ["NaN is excluded (no equality); values are compared type-exactly (1 != 1.0 != True)"],
    }


def replay(ctx, case):
    from engine.common import unjson

    r = check_one(unjson(case))
    return [r] if r else []
