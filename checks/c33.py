"""C33 — filtering the call graph by a status returns exactly the records whose displayed status is that value.

Databases are produced by real runs only (done, cached, failed, CSE-failed duplicates, crashed while running at every commit
point); for every database and every status the filter result is compared with the set of rows whose .status property is that value."""
from __future__ import annotations

LEVEL = "exploration"

STATUSES = ["RUNNING", "CACHED", "FAILED", "DONE"]


def build_dbs(tier):
    """Yield (description, db path). Caller removes the files."""
    import wf.editable as E
    import wf.tasks as T
    from checks import crash_common as cc
    from engine import crash, evloop, seams
    from redun.scheduler import catch_all

    # 1. sched drivers: two runs (second cached), failing and CSE-failing ones
    drivers = {
        "done+cached": lambda: [T.leaf(1), T.mid(2)],
        "failed": lambda: [T.fail(1), T.leaf(2)],
        "caught-failure": lambda: catch_all([T.fail(1), T.leaf(2)], ValueError, T.recover_all),
        "cse-failed-twin": lambda: catch_all([T.fail(1), T.fail(T.ident(1))], ValueError, T.recover_all),
        "cse-done-twin": lambda: [T.leaf(1), T.leaf(T.ident(1))],
        "nested-failure": lambda: T.mid_fail(1),
    }
    for name, build in drivers.items():
        for runs in (1, 2):
            db = seams.fresh_db_path("c33")
            env = evloop.Env([], db_path=db)
            try:
                for _ in range(runs):
                    env.run(build())
            finally:
                env.close()
            yield f"{name} x{runs}", db
    # 2. crashed while running: every commit point of two workloads, plus the recovery run on top
    for w in ("chain", "caught-failure") if tier != "quick" else ("caught-failure",):
        clean = cc.clean_run(w)
        for k in range(1, clean["M"] + 1):
            E.define_all({}, cc.SHALLOW.get(w))
            db = seams.fresh_db_path("c33c")
            crash.run_workload(cc.make_workload(w), db, crash_at=k)
            db2 = crash.copy_db(db, "c33r") if k % 3 == 0 else None
            yield f"{w} crashed before commit {k}", db
            if db2:
                E.define_all({}, cc.SHALLOW.get(w))
                crash.run_workload(cc.make_workload(w), db2, id_salt=1)
                yield f"{w} crashed before commit {k} + recovery run", db2
    # 3. a SECOND execution (cached / shallow replays in progress) crashed before every one of its commit points
    for w in ("chain-shallow", "caught-failure", "chain") if tier != "quick" else ("chain-shallow", "caught-failure"):
        E.define_all({}, cc.SHALLOW.get(w))
        base = seams.fresh_db_path("c33b")
        crash.run_workload(cc.make_workload(w), base)
        probe = crash.copy_db(base, "c33p")
        E.define_all({}, cc.SHALLOW.get(w))
        _, _, inj = crash.run_workload(cc.make_workload(w), probe, id_salt=1)
        seams.remove_db(probe)
        for k in range(1, inj.commits + 1):
            db = crash.copy_db(base, "c33s")
            E.define_all({}, cc.SHALLOW.get(w))
            crash.run_workload(cc.make_workload(w), db, crash_at=k, id_salt=1)
            yield f"{w} run once, second execution crashed before its commit {k}", db
        seams.remove_db(base)


def check_db(desc, db):
    from redun.backends.db import Execution, Job
    from redun.backends.db.query import CallGraphQuery

    from engine import seams

    out = []
    counts = {}
    b = seams.open_backend(db)
    try:
        s = b.session
        jobs = s.query(Job).all()
        execs = s.query(Execution).all()
        for st in STATUSES:
            want_j = {j.id for j in jobs if j.status == st}
            got_j = {j.id for j in CallGraphQuery(s).filter_job_statuses([st]).all()}
            counts[("job", st)] = len(want_j)
            if got_j != want_j:
                extra = [(j.status, bool(j.cached), j.end_time is not None, j.call_hash is not None) for j in jobs if j.id in got_j - want_j]
                missing = [(j.status, bool(j.cached), j.end_time is not None, j.call_hash is not None) for j in jobs if j.id in want_j - got_j]
                shape = sorted(set(extra))[:1] or sorted(set(missing))[:1]
                out.append((f"job-filter:{st}:{'extra' if extra else 'missing'}:row(status,cached,ended,has_call)={shape[0]}",
                            f"{desc}: filter_job_statuses([{st}]) returned {len(got_j)} jobs, {len(want_j)} display {st}; wrongly included "
                            f"(status, cached, ended, has call node) {extra[:3]}, wrongly excluded {missing[:3]}"))
            want_e = {e.id for e in execs if e.status == st}
            got_e = {e.id for e in CallGraphQuery(s).filter_execution_statuses([st]).all()}
            counts[("exec", st)] = len(want_e)
            if st != "CACHED" and got_e != want_e:
                extra = [(e.status, e.job.status if e.job else None) for e in execs if e.id in got_e - want_e]
                missing = [(e.status, e.job.status if e.job else None) for e in execs if e.id in want_e - got_e]
                shape = sorted(set(extra), key=repr)[:1] or sorted(set(missing), key=repr)[:1]
                out.append((f"execution-filter:{st}:{'extra' if extra else 'missing'}:(exec status, root job status)={shape[0]}",
                            f"{desc}: filter_execution_statuses([{st}]) returned {len(got_e)}, {len(want_e)} display {st}; extra {extra[:3]} missing {missing[:3]}"))
    finally:
        seams.close_backend(b)
    return out, counts


def run(ctx):
    import wf.tasks  # noqa: F401

    from engine import seams

    seams.template_db()
    n = 0
    total = {}
    shapes = set()
    samples = []
    for desc, db in build_dbs(ctx.tier):
        viol, counts = check_db(desc, db)
        n += 1
        for k, v in counts.items():
            total[k] = total.get(k, 0) + v
        shapes.add(tuple(sorted((k, v > 0) for k, v in counts.items())))
        if len(samples) < 3:
            samples.append({"database": desc, "rows_per_status": {f"{a}:{b}": v for (a, b), v in counts.items()}})
        for sig, detail in viol:
            ctx.violation(sig, {"database": desc}, detail)
        seams.remove_db(db)
    return {"coverage": {
        "evaluations": n * len(STATUSES) * 2, "distinct_nontrivial": len(shapes), "databases": n,
        "rows_by_displayed_status": {f"{a}:{b}": v for (a, b), v in sorted(total.items())}, "exhaustive": True,
        "rule": "databases produced by real runs: 6 drivers (done, failed, caught failure, CSE-collapsed failing twin, CSE-collapsed done twin, nested "
        "failure) run once and twice, and a workload crashed before EVERY commit point (jobs left running), some followed by a recovery run, and a second (replaying, incl. check_valid=shallow) execution crashed before every one of its commit points; for every "
        "database and every status: filter_job_statuses([s]) == {jobs displaying s}, filter_execution_statuses([s]) == {executions displaying s}; "
        "distinct = distinct patterns of which statuses occur in a database",
        "samples": samples,
    }, "assumptions": ["only row shapes reachable by real runs; execution status CACHED does not exist (a cached root job displays DONE)"]}
